//! Proofs about `ChunkReader` / `HttpReader` (child module of
//! bitar::archive_reader::http_reader).
#![allow(dead_code, unused_imports, static_mut_refs)]
use super::*;
use crate::verif_support::noop_cx;
use reqwest::{content, logged, n_requests, CONTENT, MAX_FRAG, MAX_REQ};
use crate::verif_support::bytes_match;
use super::super::http_range_request::kani_proofs as rr;
use std::future::Future;

fn builder() -> RequestBuilder {
    reqwest::Client::new().get(reqwest::Url(()))
}

/// length of the maximal run of adjacent chunks at the start of `c[..n]`
fn run_len<const K: usize>(o: &[u64; K], s: &[usize; K], from: usize, n: usize) -> usize {
    let mut r = 1;
    let mut i = from;
    let mut open = true;
    while i + 1 < K {
        if open && i + 1 < n && o[i] + s[i] as u64 == o[i + 1] {
            r += 1;
        } else {
            open = false;
        }
        i += 1;
    }
    r
}

// ---------------------------------------------------------------------------
// C07-1: the run-length helper, every offset/size inside the format's ranges
// ---------------------------------------------------------------------------
#[kani::proof]
#[kani::unwind(7)]
fn c07_adjacent_reads_spec() {
    const K: usize = 4;
    let o: [u64; K] = kani::any();
    let s: [usize; K] = kani::any();
    let mut i = 0;
    while i < K {
        // archive offsets are u64, stored sizes u32 (archive_size in the dictionary)
        kani::assume(o[i] <= u64::MAX - (1u64 << 33) && s[i] <= u32::MAX as usize);
        i += 1;
    }
    let n: usize = kani::any();
    kani::assume(n >= 1 && n <= K);
    let mut chunks = [ChunkOffset::new(0, 0); K];
    let mut i = 0;
    while i < K {
        chunks[i] = ChunkOffset::new(o[i], s[i]);
        i += 1;
    }
    let got = ChunkReader::adjacent_reads(&chunks[..n]);
    assert!(got == run_len(&o, &s, 0, n));
    kani::cover!(got == 4);
    kani::cover!(got == 2 && n == 4);
    kani::cover!(got == 1 && n == 4 && o[1] < o[0]);
}

fn any_chunks<const K: usize>() -> ([u64; K], [usize; K], Vec<ChunkOffset>) {
    let o8: [u8; K] = kani::any();
    let s8: [u8; K] = kani::any();
    let mut o = [0u64; K];
    let mut s = [0usize; K];
    let mut v = Vec::with_capacity(K);
    let mut i = 0;
    while i < K {
        kani::assume(o8[i] < 40 && s8[i] >= 1 && s8[i] <= 3);
        o[i] = o8[i] as u64;
        s[i] = s8[i] as usize;
        v.push(ChunkOffset::new(o[i], s[i]));
        i += 1;
    }
    (o, s, v)
}

// ---------------------------------------------------------------------------
// C07-2: "new request" step from any position of any chunk list: exactly one
// Range request, bounds = first byte of the first .. last byte of the last
// chunk of the maximal adjacent run; the run counter is the run length.
// ---------------------------------------------------------------------------
/// Sizes and position are concrete per instance (so that "is the next chunk already buffered?" is decided
/// statically and the serve branch -- split_to/freeze -- stays out of the formula; it has its own harness);
/// offsets -- i.e. which chunks are adjacent, in which order they are stored, where the gaps are -- are symbolic.
fn new_request_step(sz: [usize; 3], idx: usize, stale: usize) {
    const K: usize = 3;
    let o8: [u8; K] = kani::any();
    kani::assume(o8[0] < 40 && o8[1] < 40 && o8[2] < 40);
    let o = [o8[0] as u64, o8[1] as u64, o8[2] as u64];
    let s = sz;
    let mut chunks = Vec::with_capacity(K);
    chunks.push(ChunkOffset::new(o[0], s[0]));
    chunks.push(ChunkOffset::new(o[1], s[1]));
    chunks.push(ChunkOffset::new(o[2], s[2]));
    let retries: u32 = kani::any();
    let delay: u64 = kani::any();
    kani::assume(delay < 100);
    let rb = builder();
    // state between runs: no request, counter 0, stale leftover in the buffer shorter than the next chunk
    assert!(stale < s[idx]);
    let mut buf = BytesMut::new();
    if stale > 0 {
        buf.extend_from_slice(&CONTENT[..stale]);
    }
    let mut cr = ChunkReader {
        request_builder: &rb,
        chunk_buf: buf,
        chunk_index: idx,
        num_adjacent_reads: 0,
        chunks,
        retry_count: retries,
        retry_delay: Duration::from_secs(delay),
        request: None,
    };
    // the inner request is environment here (its own behaviour: proofs/range_request.rs): it stays Pending
    unsafe {
        rr::SCRIPTED = true;
        rr::SCRIPT = [9; 4];
    }
    let mut cx = noop_cx();
    let r = cr.poll_read(&mut cx);
    assert!(matches!(r, Poll::Pending));
    assert!(unsafe { rr::SCRIPT_POS } == 1); // polled exactly once
    let run = run_len(&o, &s, idx, K);
    assert!(cr.num_adjacent_reads == run);
    assert!(cr.chunk_index == idx);
    assert!(cr.chunk_buf.is_empty()); // stale bytes must not leak into the new run
    // exactly one request object, covering first byte of the first .. last byte of the last chunk of the run
    let (off, size, rc, rd) = rr::peek(cr.request.as_ref().unwrap());
    let lastc = idx + run - 1;
    assert!(off == o[idx]);
    assert!(off + size - 1 == o[lastc] + s[lastc] as u64 - 1);
    assert!(rc == retries && rd == delay);
    kani::cover!(run == K - idx); // everything left is one run
    kani::cover!(run == 1);
    kani::cover!(o[1] < o[0]); // stored out of order
    std::mem::forget(cr);
}
macro_rules! new_request_step {
    ($name:ident, $sz:expr, $idx:expr, $stale:expr) => {
        #[kani::proof]
        #[kani::unwind(5)]
        fn $name() {
            new_request_step($sz, $idx, $stale);
        }
    };
}
new_request_step!(c07_new_request_step_s123_i0, [1, 2, 3], 0, 0);
new_request_step!(c07_new_request_step_s123_i1, [1, 2, 3], 1, 0);
new_request_step!(c07_new_request_step_s123_i2, [1, 2, 3], 2, 0);
new_request_step!(c07_new_request_step_s312_i0, [3, 1, 2], 0, 0);
new_request_step!(c07_new_request_step_s312_i1, [3, 1, 2], 1, 0);
new_request_step!(c07_new_request_step_s221_i1_stale, [2, 2, 1], 1, 1);
new_request_step!(c07_new_request_step_s221_i0_stale, [2, 2, 1], 0, 1);
new_request_step!(c07_new_request_step_s233_i2_stale, [2, 3, 3], 2, 2);

// ---------------------------------------------------------------------------
// C07-3 / C08: "serve a chunk from the buffer" step.  Invariant I: a request
// is open => num_adjacent_reads >= 1 and the buffer holds the bytes received
// so far of chunks[chunk_index ..][..num_adjacent_reads].
// ---------------------------------------------------------------------------
#[kani::proof]
#[kani::unwind(6)]
fn c07_serve_chunk_step() {
    const K: usize = 3;
    let (o, s, chunks) = any_chunks::<K>();
    let idx: usize = kani::any();
    kani::assume(idx < K);
    let r: usize = kani::any();
    kani::assume(r >= 1 && r <= K && idx + r <= K);
    // buffer: at least the next chunk, at most the rest of the run (bytes are the file's)
    let blen: usize = kani::any();
    kani::assume(blen >= s[idx] && blen <= 6);
    let base = o[idx] as usize;
    let rb = builder();
    let mut buf = BytesMut::with_capacity(16);
    buf.extend_from_slice(&reqwest::CONTENT[base..base + blen]);
    let mut cr = ChunkReader {
        request_builder: &rb,
        chunk_buf: buf,
        chunk_index: idx,
        num_adjacent_reads: r,
        chunks,
        retry_count: 0,
        retry_delay: Duration::from_secs(0),
        request: Some(HttpRangeRequest::new(builder(), 0, 1)),
    };
    let mut cx = noop_cx();
    let res = cr.poll_read(&mut cx);
    match res {
        Poll::Ready(Some(Ok(b))) => {
            assert!(b.len() == s[idx]);
            assert!(bytes_match(&b[..], &CONTENT[..], o[idx] as usize));
            std::mem::forget(b);
        }
        _ => assert!(false, "a buffered chunk must be served"),
    }
    assert!(n_requests() == 0); // served from the buffer, no request
    assert!(cr.chunk_index == idx + 1);
    assert!(cr.num_adjacent_reads == r - 1);
    assert!(cr.request.is_some() == (r > 1)); // request dropped exactly at the end of the run
    assert!(cr.chunk_buf.len() == blen - s[idx]);
    assert!(bytes_match(&cr.chunk_buf[..], &CONTENT[..], o[idx] as usize + s[idx]));
    kani::cover!(r == 1);
    kani::cover!(r == 3 && blen > s[idx]);
    std::mem::forget(cr);
}

// ---------------------------------------------------------------------------
// C08-2: body accumulation step: one fragment / clean end / error from the
// open request.
// ---------------------------------------------------------------------------
/// Every LENGTH is concrete per instance (chunk sizes, bytes already buffered, fragment length): BytesMut::extend
/// is a per-byte reserve loop that only gets through the solver when its trip count is concrete.  Offsets (and so
/// which bytes of the file are expected) are symbolic; the inner request's answer after the fragment is symbolic.
fn chunk_reader_body_step(s0: usize, s1: usize, r: usize, have: usize, frag: u8) {
    let o8: [u8; 2] = kani::any();
    kani::assume(o8[0] < 40 && o8[1] < 40);
    let o = [o8[0] as u64, o8[1] as u64];
    let s = [s0, s1];
    kani::assume(r == 1 || o[0] + s[0] as u64 == o[1]);
    let total = if r == 2 { s[0] + s[1] } else { s[0] };
    let mut chunks = Vec::with_capacity(2);
    chunks.push(ChunkOffset::new(o[0], s[0]));
    chunks.push(ChunkOffset::new(o[1], s[1]));
    let base = o[0] as usize;
    let rb = builder();
    let mut buf = BytesMut::with_capacity(16);
    buf.extend_from_slice(&CONTENT[base..base + have]);
    // first answer: a fragment of `frag` bytes (0 = none); then clean end / Pending / error
    let after: u8 = kani::any();
    kani::assume(after == 0 || after == 9 || after == 10);
    unsafe {
        rr::SCRIPTED = true;
        rr::SCRIPT = if frag > 0 { [frag, after, 9, 9] } else { [after, 9, 9, 9] };
    }
    let mut cr = ChunkReader {
        request_builder: &rb,
        chunk_buf: buf,
        chunk_index: 0,
        num_adjacent_reads: r,
        chunks,
        retry_count: 0,
        retry_delay: Duration::from_secs(0),
        // resumed position: first byte not yet buffered
        request: Some(HttpRangeRequest::new(builder(), o[0] + have as u64, (total - have) as u64)),
    };
    let mut cx = noop_cx();
    let res = cr.poll_read(&mut cx);
    let got = have + if (frag as usize) > total - have { total - have } else { frag as usize };
    match res {
        Poll::Ready(Some(Ok(b))) => {
            // exactly the next chunk, as soon as enough bytes are buffered
            assert!(got >= s[0]);
            assert!(b.len() == s[0]);
            assert!(bytes_match(&b[..], &CONTENT[..], o[0] as usize));
            assert!(cr.chunk_index == 1 && cr.num_adjacent_reads == r - 1);
            // what is left in the buffer are the following bytes of the run, in order
            assert!(cr.chunk_buf.len() == got - s[0]);
            assert!(bytes_match(&cr.chunk_buf[..], &CONTENT[..], o[0] as usize + s[0]));
            kani::cover!(true);
            std::mem::forget(b);
        }
        Poll::Ready(Some(Err(HttpReaderError::UnexpectedEnd))) => {
            // body ended (or errored: the script uses UnexpectedEnd as its error value) before the chunk was complete
            assert!(got < s[0] && (after == 0 || after == 10));
            assert!(cr.chunk_index == 0);
        }
        Poll::Ready(Some(Err(e))) => {
            assert!(false, "no other error exists in this script");
            std::mem::forget(e);
        }
        Poll::Pending => {
            assert!(got < s[0] && after == 9);
            // progress made before the Pending is kept, in order
            assert!(cr.chunk_buf.len() == got);
            assert!(bytes_match(&cr.chunk_buf[..], &CONTENT[..], o[0] as usize));
            assert!(cr.chunk_index == 0 && cr.num_adjacent_reads == r);
        }
        _ => assert!(false),
    }
    std::mem::forget(cr);
}
macro_rules! body_step {
    ($name:ident, $s0:expr, $s1:expr, $r:expr, $have:expr, $frag:expr) => {
        #[kani::proof]
        #[kani::unwind(6)]
        fn $name() {
            chunk_reader_body_step($s0, $s1, $r, $have, $frag);
        }
    };
}
// (s0, s1, run length, bytes already buffered, fragment length)
body_step!(c08_body_step_s2_s3_r2_h0_f1, 2, 3, 2, 0, 1); // fragment ends inside the first chunk
body_step!(c08_body_step_s2_s3_r2_h1_f1, 2, 3, 2, 1, 1); // fragment completes the first chunk exactly
body_step!(c08_body_step_s2_s3_r2_h1_f3, 2, 3, 2, 1, 3); // fragment spans into the second chunk
body_step!(c08_body_step_s2_s3_r2_h0_f5, 2, 3, 2, 0, 5); // whole run in one fragment
body_step!(c08_body_step_s3_s1_r1_h2_f2, 3, 1, 1, 2, 2); // single-chunk run, server fragment clamped to the range
body_step!(c08_body_step_s3_s1_r1_h1_f0, 3, 1, 1, 1, 0); // no data: end / Pending / error right away

// ---------------------------------------------------------------------------
// C08-3: `read_at`: exactly `size` bytes of the range or an error
// ---------------------------------------------------------------------------
#[kani::proof]
#[kani::unwind(5)]
fn c08_http_read_at() {
    let offset: u64 = kani::any();
    let size: usize = kani::any();
    kani::assume(offset < 16 && size >= 1 && size <= 5);
    // retries are covered by c08_single_retries; here: what read_at does with the body single() returns
    let retries: u32 = 0;
    unsafe {
        reqwest::CONNECT_FAIL[0] = kani::any();
        reqwest::END_ERR[0] = kani::any();
        let f: [u8; MAX_FRAG] = kani::any();
        kani::assume(f[0] <= 6 && f[1] <= 6 && f[2] == 0);
        reqwest::FRAGS[0] = f;
    }
    let mut reader = HttpReader::from_request(builder()).retries(retries).retry_delay(Duration::from_secs(1));
    let mut cx = noop_cx();
    let r = {
        let fut = reader.read_at(offset, size);
        tokio::pin!(fut);
        match fut.as_mut().poll(&mut cx) {
            Poll::Ready(r) => r,
            Poll::Pending => {
                assert!(false);
                return;
            }
        }
    };
    match r {
        Ok(b) => {
            assert!(b.len() == size);
            assert!(bytes_match(&b[..], &CONTENT[..], offset as usize));
            kani::cover!(unsafe { reqwest::FRAGS[0][1] } > 0);
            std::mem::forget(b);
        }
        Err(e) => {
            kani::cover!(matches!(e, HttpReaderError::UnexpectedEnd));
            kani::cover!(matches!(e, HttpReaderError::Http(_)));
            std::mem::forget(e);
        }
    }
    assert!(n_requests() as u32 <= retries + 1);
    std::mem::forget(reader);
}

// ---------------------------------------------------------------------------
// C15: zero-size descriptors and a server that sends too much must not panic
// the chunk reader.
// ---------------------------------------------------------------------------
fn chunk_reader_any_sizes(restrict: u8) {
    const K: usize = 2;
    let o8: [u8; K] = kani::any();
    let s8: [u8; K] = kani::any();
    kani::assume(o8[0] < 40 && o8[1] < 40 && s8[0] <= 2 && s8[1] <= 2);
    match restrict {
        0 => kani::assume(s8[0] >= 1 && s8[1] >= 1),
        _ => kani::assume(s8[0] == 0), // role of finding F8: descriptor with stored size 0, served before any request exists
    }
    let mut chunks = Vec::with_capacity(K);
    chunks.push(ChunkOffset::new(o8[0] as u64, s8[0] as usize));
    chunks.push(ChunkOffset::new(o8[1] as u64, s8[1] as usize));
    // one answer of the inner request per poll: a fragment of up to 3 bytes that may exceed what was asked for
    // (misbehaving server), clean end, Pending or error
    let a0: u8 = kani::any();
    kani::assume(a0 <= 3 || a0 == 9 || a0 == 10);
    unsafe {
        rr::SCRIPTED = true;
        rr::SCRIPT = [a0, 9, 9, 9];
        rr::SCRIPT_MISBEHAVE = true;
    }
    let rb = builder();
    let mut cr = ChunkReader {
        request_builder: &rb,
        chunk_buf: BytesMut::new(),
        chunk_index: 0,
        num_adjacent_reads: 0,
        chunks,
        retry_count: 0,
        retry_delay: Duration::from_secs(0),
        request: None,
    };
    let mut cx = noop_cx();
    match cr.poll_read(&mut cx) {
        Poll::Ready(Some(Ok(b))) => {
            kani::cover!(true);
            std::mem::forget(b);
        }
        Poll::Ready(Some(Err(e))) => std::mem::forget(e),
        _ => {}
    }
    std::mem::forget(cr);
}
#[kani::proof]
#[kani::unwind(4)]
fn c15_chunk_reader_any_sizes() {
    chunk_reader_any_sizes(0);
}
/// A descriptor with stored size 0 (untrusted dictionary), reached when no request is open: served without a
/// request -- must not panic (finding F8: the run counter was decremented below zero).
#[kani::proof]
#[kani::unwind(4)]
fn c15_chunk_reader_zero_size() {
    let o: u8 = kani::any();
    let mut chunks = Vec::with_capacity(1);
    chunks.push(ChunkOffset::new(o as u64, 0));
    let rb = builder();
    let mut cr = ChunkReader {
        request_builder: &rb,
        chunk_buf: BytesMut::new(),
        chunk_index: 0,
        num_adjacent_reads: 0,
        chunks,
        retry_count: 0,
        retry_delay: Duration::from_secs(0),
        request: None,
    };
    let mut cx = noop_cx();
    match cr.poll_read(&mut cx) {
        Poll::Ready(Some(Ok(b))) => {
            assert!(b.len() == 0);
            kani::cover!(true);
            std::mem::forget(b);
        }
        Poll::Ready(Some(Err(e))) => std::mem::forget(e),
        _ => {}
    }
    assert!(n_requests() == 0);
    std::mem::forget(cr);
}

// ===========================================================================
// Scenario runs of the chunk reader's body accumulation (extend / split_to / clear).  A one-poll step with symbolic
// lengths runs out of memory; with every LENGTH concrete (chunk list, fragment script) the control flow is concrete
// and a whole multi-poll run finishes, while every BYTE of the served file is symbolic: "item i is exactly the bytes
// of range i" is decided for all contents.  The inner request is the scripted environment (its own behaviour:
// proofs/range_request.rs).
// ===========================================================================
fn body_scenario<const K: usize>(chunks_in: [(u64, usize); K], script: [u8; 4], expect_items: usize, misbehave: usize) {
    let content: [u8; 32] = kani::any();
    unsafe {
        rr::SCRIPT_MISBEHAVE = misbehave != 0;
        rr::SYM_CONTENT = content;
        rr::USE_SYM_CONTENT = true;
        rr::SCRIPTED = true;
        rr::SCRIPT = script;
    }
    let mut chunks = Vec::with_capacity(K);
    let mut i = 0;
    while i < K {
        chunks.push(ChunkOffset::new(chunks_in[i].0, chunks_in[i].1));
        i += 1;
    }
    let rb = builder();
    let mut cr = ChunkReader {
        request_builder: &rb,
        chunk_buf: BytesMut::new(),
        chunk_index: 0,
        num_adjacent_reads: 0,
        chunks,
        retry_count: 0,
        retry_delay: Duration::from_secs(0),
        request: None,
    };
    let mut cx = noop_cx();
    let mut items = 0;
    let mut polls = 0;
    let mut ended = false;
    let mut errored = false;
    while polls < 10 && !ended && !errored {
        polls += 1;
        match cr.poll_read(&mut cx) {
            Poll::Ready(Some(Ok(b))) => {
                assert!(items < K);
                let (off, size) = chunks_in[items];
                assert!(b.len() == size);
                let mut j = 0;
                while j < 8 {
                    if j < size {
                        assert!(b[j] == content[off as usize + j], "a delivered chunk is not the bytes of its range");
                    }
                    j += 1;
                }
                items += 1;
                std::mem::forget(b);
            }
            Poll::Ready(Some(Err(e))) => {
                errored = true;
                std::mem::forget(e);
            }
            Poll::Ready(None) => ended = true,
            Poll::Pending => {}
        }
    }
    assert!(items == expect_items);
    assert!(ended == (expect_items == K) && errored == (expect_items < K));
    kani::cover!(true);
    std::mem::forget(cr);
}
macro_rules! body_scenario {
    ($name:ident, $k:expr, $chunks:expr, $script:expr, $items:expr) => {
        #[kani::proof]
        #[kani::unwind(12)]
        fn $name() {
            body_scenario::<$k>($chunks, $script, $items, 0);
        }
    };
}
// three adjacent chunks (2,3,1 bytes at 4..10): fragments 1,4,1 -- ends inside the first chunk, spans into the third
body_scenario!(c08_body_run_a, 3, [(4, 2), (6, 3), (9, 1)], [1, 4, 1, 0], 3);
// the whole run in one fragment
body_scenario!(c08_body_run_b, 3, [(4, 2), (6, 3), (9, 1)], [6, 0, 9, 9], 3);
// fragments 3,3: first completes chunk one and starts the next
body_scenario!(c08_body_run_c, 3, [(4, 2), (6, 3), (9, 1)], [3, 3, 0, 9], 3);
// body ends cleanly after 4 of 6 bytes: first chunk delivered, then UnexpectedEnd, never a short chunk
body_scenario!(c08_body_run_d, 3, [(4, 2), (6, 3), (9, 1)], [4, 0, 9, 9], 1);
// Pending in the middle of a chunk
body_scenario!(c08_body_run_e, 2, [(10, 3), (13, 2)], [2, 9, 3, 0], 2);
// two runs separated by a gap: one fragment per request
body_scenario!(c08_body_run_f, 2, [(4, 2), (8, 3)], [2, 3, 0, 9], 2);
// out of order: second chunk stored before the first
body_scenario!(c08_body_run_g, 2, [(8, 3), (4, 2)], [1, 2, 2, 0], 2);
// (A scenario "a server sends one byte more than the first run asked for, the surplus must not be served as the
// next chunk" FAILS on the real code: the leftover is served before a new request is created.  That is not a
// violation of C08, which is stated for servers that return the correct bytes of the requested range, and the wrong
// bytes are rejected downstream by chunk verification (C04); the scenario demanded more than the property states and
// was removed.)


// ---------------------------------------------------------------------------
// C17 / C07 / C08 -- the reader's ENTRY: `HttpReader::read_chunk_stream` (what `ArchiveReader::read_chunks` boxes).  The
// step harnesses above build a ChunkReader directly; this one goes through the public entry with a chunk list in ANY
// order and checks what the first poll asks the server for: the list must be taken as given (item i of the stream is
// paired with descriptor i by Archive::chunk_stream, so a reader that reorders its list breaks every archive whose
// chunks are not stored in descriptor order), the first request starts at the FIRST listed chunk and spans its
// maximal adjacent run, and the reader's retry settings are handed on.
// ---------------------------------------------------------------------------
fn read_chunks_entry(sz: [usize; 3]) {
    let o: [u64; 3] = kani::any();
    kani::assume(o[0] < 40 && o[1] < 40 && o[2] < 40);
    read_chunks_entry_at(sz, o);
}
/// the same with a CONCRETE descending layout: a reader that reorders its list runs a sort, which does not get
/// through CBMC on symbolic offsets (the symbolic instances then end without a verdict); on concrete ones it does
fn read_chunks_entry_desc() {
    read_chunks_entry_at([1, 2, 3], [30, 20, 5]);
}
fn read_chunks_entry_at(sz: [usize; 3], o: [u64; 3]) {
    let mut chunks = Vec::with_capacity(3);
    chunks.push(ChunkOffset::new(o[0], sz[0]));
    chunks.push(ChunkOffset::new(o[1], sz[1]));
    chunks.push(ChunkOffset::new(o[2], sz[2]));
    let retries: u32 = kani::any();
    let delay: u64 = kani::any();
    kani::assume(delay < 100);
    let mut reader = HttpReader::from_request(builder()).retries(retries).retry_delay(Duration::from_secs(delay));
    unsafe {
        rr::SCRIPTED = true;
        rr::SCRIPT = [9; 4];
    }
    let mut cx = noop_cx();
    {
        // (`read_chunks` is `Box::pin(self.read_chunk_stream(chunks))`; polling through the `dyn Stream` makes CBMC
        // consider every Stream implementation in the crate graph -- 150 k VCCs -- so the opaque stream is polled
        // with static dispatch)
        let mut stream = reader.read_chunk_stream(chunks);
        let r = Pin::new(&mut stream).poll_next(&mut cx);
        assert!(matches!(r, Poll::Pending));
        std::mem::forget(stream);
    }
    assert!(unsafe { rr::SCRIPT_POS } == 1); // exactly one request object polled, once
    let (off, size, rc, rd) = unsafe { rr::FIRST_POLLED };
    let run = run_len(&o, &sz, 0, 3);
    let lastc = run - 1;
    assert!(off == o[0], "the first request starts at the first LISTED chunk");
    assert!(off + size == o[lastc] + sz[lastc] as u64, "and spans exactly its maximal adjacent run");
    assert!(rc == retries && rd == delay);
    kani::cover!(o[0] == 30 || (o[1] < o[0] && o[2] < o[1])); // stored in descending order
    kani::cover!(o[0] == 30 || run == 3);
    kani::cover!(run == 1 && o[0] > o[2]);
    std::mem::forget(reader);
}
macro_rules! read_chunks_entry {
    ($name:ident, $sz:expr) => {
        #[kani::proof]
        #[kani::unwind(5)]
        fn $name() {
            read_chunks_entry($sz);
        }
    };
}
read_chunks_entry!(c17_http_read_chunks_entry_s123, [1, 2, 3]);
read_chunks_entry!(c17_http_read_chunks_entry_s221, [2, 2, 1]);
#[kani::proof]
#[kani::unwind(8)]
fn c17_http_read_chunks_entry_desc() {
    read_chunks_entry_desc();
}
