//! `ChunkIndex` lookups (C02/C06: truncated-hash keyed lookup consistent
//! between index build and query).  The std HashMap is replaced by the
//! ideal-hash model map (kani/support/verif_collections.rs): two keys address
//! the same entry iff they are `==` AND feed identical bytes to the Hasher.
#![allow(dead_code, unused_imports, static_mut_refs)]
use super::*;
use std::hash::{Hash, Hasher};

/// Index state built directly (struct literals), for harnesses in other
/// modules that inject a clone-index state: entries (key truncated to
/// `hash_length`, size, ONE offset each).
pub(crate) fn mk_index1(hash_length: usize, key: &[u8], size: usize, off: u64) -> ChunkIndex {
    let mut map = HashMap::new();
    let mut k = HashSum::from(key);
    k.truncate(hash_length);
    let mut offsets = Vec::with_capacity(1);
    offsets.push(off);
    map.insert(k, ChunkLocation { size, offsets });
    let mut idx = ChunkIndex::new_empty(hash_length);
    idx.map = map;
    idx
}
pub(crate) fn add_entry2(idx: &mut ChunkIndex, key: &[u8], size: usize, off0: u64, off1: u64) {
    let mut k = HashSum::from(key);
    k.truncate(idx.hash_length);
    let mut offsets = Vec::with_capacity(2);
    offsets.push(off0);
    offsets.push(off1);
    idx.map.insert(k, ChunkLocation { size, offsets });
}
pub(crate) fn add_entry(idx: &mut ChunkIndex, key: &[u8], size: usize, off: u64) {
    let mut k = HashSum::from(key);
    k.truncate(idx.hash_length);
    let mut offsets = Vec::with_capacity(1);
    offsets.push(off);
    idx.map.insert(k, ChunkLocation { size, offsets });
}

// ---------------------------------------------------------------------------
// hook for CloneOutput-level harnesses (proofs/clone_output.rs): when
// SCRIPTED_REMOVE != 0, `ChunkIndex::remove` answers from this script instead
// of consulting the map (the mirror generator inserts the call under
// cfg(kani)); what remove really does is decided by c02_index_lookup_step.
// ---------------------------------------------------------------------------
/// 0 = off (real remove); 1 = answer None; 2 = answer Some(location with REMOVE_N offsets)
pub(crate) static mut SCRIPTED_REMOVE: u8 = 0;
pub(crate) static mut REMOVE_SIZE: usize = 0;
pub(crate) static mut REMOVE_N: usize = 0;
pub(crate) static mut REMOVE_OFFS: [u64; 2] = [0; 2];
pub(crate) static mut REMOVE_CALLS: usize = 0;
pub(crate) static mut REMOVE_ASKED_B0: u8 = 0;
pub(crate) fn remove_is_scripted() -> bool {
    unsafe { SCRIPTED_REMOVE != 0 }
}
pub(crate) fn scripted_remove(hash: &HashSum) -> Option<ChunkLocation> {
    let mode = unsafe { SCRIPTED_REMOVE };
    unsafe {
        REMOVE_CALLS += 1;
        REMOVE_ASKED_B0 = hash.slice()[0];
    }
    if mode == 1 {
        return None;
    }
    let n = unsafe { REMOVE_N };
    let mut offsets = Vec::with_capacity(2);
    offsets.push(unsafe { REMOVE_OFFS[0] });
    if n > 1 {
        offsets.push(unsafe { REMOVE_OFFS[1] });
    }
    Some(ChunkLocation { size: unsafe { REMOVE_SIZE }, offsets })
}

// ---------------------------------------------------------------------------
// hook for executor-level harnesses (proofs/clone_output_glue.rs, c03_exec_*): when PLANNER_SCRIPTED is set,
// `strip_chunks_already_in_place` and `reorder_ops` answer from this script (prologues inserted by the mirror
// generator under cfg(kani), guarded by a plain bool so that the real planner is not explored).
// ---------------------------------------------------------------------------
pub(crate) static mut PLANNER_SCRIPTED: bool = false;
pub(crate) static mut STRIP_RET: (usize, u64) = (0, 0);
pub(crate) static mut PLAN: Option<Vec<ReorderOp<'static>>> = None;
pub(crate) static mut PLANNER_CALLS: usize = 0;
pub(crate) fn planner_is_scripted() -> bool {
    unsafe { PLANNER_SCRIPTED }
}
pub(crate) fn scripted_strip() -> (usize, u64) {
    unsafe { STRIP_RET }
}
pub(crate) fn scripted_reorder_ops() -> Vec<ReorderOp<'static>> {
    unsafe {
        PLANNER_CALLS += 1;
        PLAN.take().expect("harness did not script a plan")
    }
}

/// hook for feed-level glue harnesses: count add_chunk calls instead of executing them
pub(crate) static mut ADD_SCRIPTED: bool = false;
pub(crate) static mut ADD_CALLS: usize = 0;
pub(crate) fn add_chunk_is_scripted() -> bool {
    unsafe { ADD_SCRIPTED }
}
pub(crate) fn scripted_add_chunk(hash: HashSum, _size: usize, _offsets: &[u64]) {
    unsafe {
        ADD_CALLS += 1;
    }
    std::mem::forget(hash);
}

/// records what a key feeds to a Hasher (<= 80 bytes)
struct Rec {
    buf: [u8; 80],
    n: usize,
}
impl Hasher for Rec {
    fn write(&mut self, bytes: &[u8]) {
        let mut i = 0;
        while i < bytes.len() {
            self.buf[self.n] = bytes[i];
            self.n += 1;
            i += 1;
        }
    }
    fn finish(&self) -> u64 {
        0
    }
}
fn fed<K: Hash + ?Sized>(k: &K) -> Rec {
    let mut r = Rec { buf: [0; 80], n: 0 };
    k.hash(&mut r);
    r
}

/// For every 64-byte digest h (what a seed/archive chunk hashes to), every
/// stored key k of length L (an archive checksum truncated by add_chunk to the
/// index's hash length L) : the lookup key built by remove()/contains()
/// -- TruncatedHashSum{h, L} -- is `==` to k and feeds the same bytes to the
/// hasher  iff  h[..L] == k[..L].  (So a std HashMap finds the entry exactly
/// when the truncated hashes agree, never otherwise.)
#[kani::proof]
#[kani::unwind(82)]
fn c02_key_consistency() {
    let hsum: [u8; 64] = kani::any();
    let ksum: [u8; 64] = kani::any();
    let l: usize = kani::any();
    kani::assume(l <= 64);
    let h = HashSum::from(&hsum[..]);
    let mut k = HashSum::from(&ksum[..]);
    k.truncate(l); // as add_chunk stores it
    let q = TruncatedHashSum { hash: &h, truncate_len: l };
    let qk: &dyn HashSumKey = &q;
    let kk: &dyn HashSumKey = std::borrow::Borrow::borrow(&k);
    let mut same = true;
    let mut i = 0;
    while i < 64 {
        if i < l {
            same &= hsum[i] == ksum[i];
        }
        i += 1;
    }
    let eq = qk == kk;
    let fa = fed(qk);
    let fb = fed(kk);
    let mut fed_same = fa.n == fb.n;
    let mut i = 0;
    while i < 80 {
        if i < fa.n && i < fb.n {
            fed_same &= fa.buf[i] == fb.buf[i];
        }
        i += 1;
    }
    assert!(eq == same);
    assert!(fed_same == same);
    // and the stored key hashes like itself through Borrow (HashMap's contract: k.hash == k.borrow().hash)
    let fk = fed(&k);
    assert!(fk.n == fb.n);
    kani::cover!(same && l == 4);
    kani::cover!(!same && l == 64);
    kani::cover!(same && l == 0);
}

/// add_chunk then contains/remove through the model map, one entry: found iff
/// the truncated hashes agree; remove returns the stored size and offsets and
/// deletes the entry.
#[kani::proof]
#[kani::unwind(12)]
fn c02_index_lookup_step() {
    let hl: usize = kani::any();
    kani::assume(hl >= 1 && hl <= 8);
    let ksum: [u8; 8] = kani::any();
    let hsum: [u8; 8] = kani::any();
    let size: usize = kani::any();
    let off: u64 = kani::any();
    let mut idx = ChunkIndex::new_empty(hl);
    idx.add_chunk(HashSum::from(&ksum[..]), size, &[off]);
    let h = HashSum::from(&hsum[..]);
    let mut same = true;
    let mut i = 0;
    while i < 8 {
        if i < hl {
            same &= hsum[i] == ksum[i];
        }
        i += 1;
    }
    assert!(idx.contains(&h) == same);
    assert!(idx.len() == 1);
    match idx.remove(&h) {
        Some(loc) => {
            assert!(same);
            assert!(loc.size() == size && loc.offsets().len() == 1 && loc.offsets()[0] == off);
            assert!(idx.is_empty() && !idx.contains(&h));
            kani::cover!(hl == 4);
            std::mem::forget(loc);
        }
        None => {
            assert!(!same && idx.len() == 1);
        }
    }
    std::mem::forget(idx);
}
