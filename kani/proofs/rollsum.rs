//! Proofs about `RollSum` (child module of bitar::rolling_hash::rollsum).
#![allow(dead_code, unused_imports)]
use super::*;

/// Closed form of the sum over a window x_0..x_{w-1} (x_{w-1} newest); does
/// not roll.  s1 = SUM (x_i+31);  s2 = SUM (w-i)(x_i+31) + 31*w*(w-3)/2
/// (the constant is what the implementation's initial state -- an all-zero
/// window -- fixes; derivation in DESIGN.md).  All arithmetic mod 2^32.
pub(crate) fn closed_form(win: &[u8]) -> u32 {
    let w = win.len() as u32;
    let mut s1: u32 = 0;
    let mut s2: u32 = 0;
    let mut i = 0;
    while i < win.len() {
        let v = win[i] as u32 + 31;
        s1 = s1.wrapping_add(v);
        s2 = s2.wrapping_add((w - i as u32).wrapping_mul(v));
        i += 1;
    }
    s2 = s2.wrapping_add((31i64 * w as i64 * (w as i64 - 3) / 2) as u32);
    (s1 << 16) | (s2 & 0xffff)
}

/// exact field-by-field equality of two hashers with the same window size
pub(crate) fn same_fields(a: &RollSum, b: &RollSum) -> bool {
    let w = a.window.len();
    if b.window.len() != w {
        return false;
    }
    let mut ok = a.s1 == b.s1 && a.s2 == b.s2 && a.offset == b.offset;
    let mut i = 0;
    while i < w {
        ok &= a.window[i] == b.window[i];
        i += 1;
    }
    ok
}

/// same ring position and same window bytes.  (s1/s2 are not compared: two rolling computations of the same sums
/// are an adder-chain equivalence the SAT back end does not finish; that the sums follow from the window content is
/// the inductive lemma c10_rollsum_inductive_step_*.)
pub(crate) fn same_window(a: &RollSum, b: &RollSum) -> bool {
    let w = a.window.len();
    if b.window.len() != w {
        return false;
    }
    let mut ok = a.offset == b.offset;
    let mut i = 0;
    while i < w {
        ok &= a.window[i] == b.window[i];
        i += 1;
    }
    ok
}

/// C10-1 (inductive, any history): from any state whose (s1, s2, window ring)
/// are consistent with a window `win`, one input gives the closed form of the
/// shifted window and keeps the representation invariant.
fn inv_holds(h: &RollSum, win: &[u8]) -> bool {
    let w = h.window.len();
    if win.len() != w || h.offset >= w {
        return false;
    }
    let mut ok = true;
    let mut s1: u32 = 0;
    let mut s2: u32 = 0;
    let mut i = 0;
    while i < w {
        let pos = if h.offset + i >= w { h.offset + i - w } else { h.offset + i };
        ok &= h.window[pos] == win[i];
        let v = win[i] as u32 + 31;
        s1 = s1.wrapping_add(v);
        s2 = s2.wrapping_add(((w - i) as u32).wrapping_mul(v));
        i += 1;
    }
    s2 = s2.wrapping_add((31i64 * w as i64 * (w as i64 - 3) / 2) as u32);
    ok && h.s1 == s1 && h.s2 == s2
}

fn inductive_step_at<const W: usize>(offset: usize) {
    let win: [u8; W] = kani::any();
    let mut h = RollSum::new(W);
    h.offset = offset;
    h.s1 = kani::any();
    h.s2 = kani::any();
    let mut i = 0;
    while i < W {
        let pos = if offset + i >= W { offset + i - W } else { offset + i };
        h.window[pos] = win[i];
        i += 1;
    }
    kani::assume(inv_holds(&h, &win));
    let b: u8 = kani::any();
    h.input(b);
    let mut nw = [0u8; W];
    let mut i = 0;
    while i + 1 < W {
        nw[i] = win[i + 1];
        i += 1;
    }
    nw[W - 1] = b;
    assert!(inv_holds(&h, &nw));
    assert!(h.sum() == closed_form(&nw));
    kani::cover!(b == 255 && win[0] == 255);
    kani::cover!(b == 0);
    std::mem::forget(h);
}
/// One harness per (window, ring offset), see buzhash.rs for why.
macro_rules! inductive_step {
    ($name:ident, $w:expr, $i:expr) => {
        #[kani::proof]
        #[kani::unwind(10)]
        fn $name() {
            inductive_step_at::<$w>($i);
        }
    };
}
inductive_step!(c10_rollsum_inductive_step_w1_i0, 1, 0);
inductive_step!(c10_rollsum_inductive_step_w2_i0, 2, 0);
inductive_step!(c10_rollsum_inductive_step_w2_i1, 2, 1);
inductive_step!(c10_rollsum_inductive_step_w3_i0, 3, 0);
inductive_step!(c10_rollsum_inductive_step_w3_i1, 3, 1);
inductive_step!(c10_rollsum_inductive_step_w3_i2, 3, 2);
inductive_step!(c10_rollsum_inductive_step_w4_i0, 4, 0);
inductive_step!(c10_rollsum_inductive_step_w4_i1, 4, 1);
inductive_step!(c10_rollsum_inductive_step_w4_i2, 4, 2);
inductive_step!(c10_rollsum_inductive_step_w4_i3, 4, 3);
inductive_step!(c10_rollsum_inductive_step_w5_i2, 5, 2);
inductive_step!(c10_rollsum_inductive_step_w6_i0, 6, 0);

/// `new(w)` satisfies the invariant for the all-zero window.
#[kani::proof]
#[kani::unwind(10)]
fn c10_rollsum_inv_after_new() {
    let w: usize = kani::any();
    kani::assume(w >= 1 && w <= 8);
    let h = RollSum::new(w);
    let z = [0u8; 8];
    assert!(inv_holds(&h, &z[..w]));
    kani::cover!(w == 1);
    kani::cover!(w == 8);
    std::mem::forget(h);
}

/// Bounded, from reset: two histories P1+S / P2+S agree from one window into S.
fn window_only_from_reset<const W: usize, const N1: usize, const N2: usize, const S: usize>() {
    let p1: [u8; N1] = kani::any();
    let p2: [u8; N2] = kani::any();
    let s: [u8; S] = kani::any();
    let mut ha = RollSum::new(W);
    let mut hb = RollSum::new(W);
    let mut i = 0;
    while i < N1 {
        ha.input(p1[i]);
        i += 1;
    }
    let mut i = 0;
    while i < N2 {
        hb.input(p2[i]);
        i += 1;
    }
    let mut i = 0;
    while i < S {
        ha.input(s[i]);
        hb.input(s[i]);
        if i + 1 >= W {
            assert!(ha.sum() == hb.sum());
        }
        i += 1;
    }
    kani::cover!(s[0] == 255 && s[1] == 0);
    std::mem::forget(ha);
    std::mem::forget(hb);
}
#[kani::proof]
#[kani::unwind(10)]
fn c10_rollsum_window_only_w2_p0_p2() {
    window_only_from_reset::<2, 0, 2, 4>();
}
#[kani::proof]
#[kani::unwind(10)]
fn c10_rollsum_window_only_w2_p1_p3() {
    window_only_from_reset::<2, 1, 3, 5>();
}
#[kani::proof]
#[kani::unwind(10)]
fn c10_rollsum_window_only_w3_p0_p4() {
    window_only_from_reset::<3, 0, 4, 5>();
}
#[kani::proof]
#[kani::unwind(10)]
fn c10_rollsum_window_only_w3_p2_p4() {
    window_only_from_reset::<3, 2, 4, 6>();
}

/// C15: window sizes are u32 values from an untrusted dictionary (and any
/// usize from the CLI's --hash-window): the arithmetic of `new` and of one
/// `input` must not panic for any of them.
#[kani::proof]
#[kani::unwind(4)]
fn c15_rollsum_arith_any_window() {
    let w: usize = kani::any();
    kani::assume(w >= 1 && w <= u32::MAX as usize);
    let mut h = RollSum::new(w);
    h.input(kani::any());
    kani::cover!(w == 64);
    kani::cover!(w == 20000);
    std::mem::forget(h);
}
