//! Chunk verification (C04).  Blake2b-512 is replaced by the ideal digest
//! (an injective embedding, see verif_support::ideal_digest): collision
//! resistance is an assumption no solver can discharge.
#![allow(dead_code, unused_imports)]
use super::*;
use crate::verif_support::ideal_digest;

static DATA: [u8; 8] = [0; 8];

fn any_chunk(max: usize) -> (Chunk, [u8; 6], usize) {
    let d: [u8; 6] = kani::any();
    let n: usize = kani::any();
    kani::assume(n <= max && max <= 6);
    (Chunk(Bytes::copy_from_slice(&d[..n])), d, n)
}

/// `ArchiveChunk::verify`: Ok iff the first L bytes of the digest of the data
/// equal the expected hash (L = its length); Ok returns the very chunk with
/// its hash, Err carries the chunk and never a VerifiedChunk.
#[kani::proof]
#[kani::unwind(66)]
fn c04_verify_step() {
    let (chunk, d, n) = any_chunk(5);
    let exp_sum: [u8; 64] = kani::any();
    let l: usize = kani::any();
    kani::assume(l >= 1 && l <= 64);
    let expected = HashSum::from(&exp_sum[..l]);
    let digest = ideal_digest(&d[..n]);
    let ds = digest.slice();
    let mut matches = true;
    let mut i = 0;
    while i < 64 {
        if i < l {
            matches &= ds[i] == exp_sum[i];
        }
        i += 1;
    }
    let ac = ArchiveChunk { chunk, expected_hash: expected };
    match ac.verify() {
        Ok(v) => {
            assert!(matches);
            assert!(v.len() == n);
            let mut i = 0;
            while i < 6 {
                if i < n {
                    assert!(v.data()[i] == d[i]);
                }
                i += 1;
            }
            // the hash handed on is the (truncated) digest of that data
            assert!(v.hash().len() == l);
            kani::cover!(l == 4);
            kani::cover!(l == 64);
            std::mem::forget(v);
        }
        Err(e) => {
            assert!(!matches);
            assert!(e.invalid_chunk.len() == n);
            kani::cover!(n > 0 && exp_sum[0] == n as u8); // length byte right, content wrong
            std::mem::forget(e);
        }
    }
}

/// With the ideal digest and L > n (so the truncated digest still determines
/// the data): a chunk that verifies against the hash of source data `src` IS
/// `src` -- "a fetched chunk that differs from the source chunk is never fed".
/// Lengths concrete per instance, contents and the hash length symbolic.
fn verified_means_same_bytes(n: usize, sn: usize) {
    let d: [u8; 4] = kani::any();
    let src: [u8; 4] = kani::any();
    let chunk = Chunk(Bytes::copy_from_slice(&d[..n]));
    let l: usize = kani::any();
    kani::assume(l >= 6 && l <= 64); // truncated ideal digest injective for data <= 4 bytes
    let mut expected = ideal_digest(&src[..sn]);
    expected.truncate(l);
    let ac = ArchiveChunk { chunk, expected_hash: expected };
    let r = ac.verify();
    kani::cover!(n != sn || r.is_ok());
    if let Ok(v) = r {
        assert!(n == sn);
        let mut i = 0;
        while i < 4 {
            if i < n {
                assert!(d[i] == src[i]);
            }
            i += 1;
        }
        std::mem::forget(v);
    } else {
        kani::cover!(n != sn || d[0] != src[0]);
    }
}
#[kani::proof]
#[kani::unwind(66)]
fn c04_verified_means_same_bytes_2_2() {
    verified_means_same_bytes(2, 2);
}
#[kani::proof]
#[kani::unwind(66)]
fn c04_verified_means_same_bytes_4_4() {
    verified_means_same_bytes(4, 4);
}
#[kani::proof]
#[kani::unwind(66)]
fn c04_verified_means_same_bytes_3_2() {
    verified_means_same_bytes(3, 2);
}
#[kani::proof]
#[kani::unwind(66)]
fn c04_verified_means_same_bytes_0_1() {
    verified_means_same_bytes(0, 1);
}

/// Raw chunks (compression == None) reach verification unmodified.
#[kani::proof]
#[kani::unwind(8)]
fn c04_decompress_raw_identity() {
    let (chunk, d, n) = any_chunk(5);
    let exp: [u8; 8] = kani::any();
    let cc = CompressedArchiveChunk {
        chunk: CompressedChunk { data: chunk.0, source_size: kani::any(), compression: None },
        expected_hash: HashSum::from(&exp[..]),
    };
    match cc.decompress() {
        Ok(ac) => {
            assert!(ac.len() == n);
            let mut i = 0;
            while i < 6 {
                if i < n {
                    assert!(ac.chunk.data()[i] == d[i]);
                }
                i += 1;
            }
            assert!(ac.expected_hash.len() == 8 && ac.expected_hash.slice()[7] == exp[7]);
            kani::cover!(n == 5);
            std::mem::forget(ac);
        }
        Err(_) => assert!(false, "raw chunk cannot fail to decompress"),
    }
}
