//! `CloneOutput::feed` and `CloneOutput::reorder_in_place` as WHOLE runs over the real write loop (C03, C05, C13).
//!
//! Compiled into `clone_output_sync.rs`: a copy of `clone_output.rs` that the mirror generator derives on every run
//! by removing `async` and replacing every `.await` on a leaf future by `.verif_now()` (poll once, must be ready;
//! calls of the file's own formerly-async functions simply lose their `.await`).  With mocks that are always ready
//! that is the same computation as the repository's text, but the functions are no longer coroutines: values that
//! live across the former await points are ordinary locals again, CBMC constant-propagates them, and multi-operation
//! plans -- which run out of memory in the coroutine form (proofs/clone_output_glue.rs) -- finish in seconds.
//! What is lost: orderings that need a Pending between two awaits (there are none that matter for WHAT is written).
//!
//! The reorder PLANNER stays scripted (prologues in chunk_index.rs): each scenario hands the executor the plan the
//! real planner produces for a concrete layout (derived by hand from its DFS; ops are data).  Layout and plan are
//! concrete, EVERY BYTE of the prior file content is symbolic, fault points are symbolic.
#![allow(dead_code, unused_imports, static_mut_refs)]
use super::*;
use crate::verif_support::noop_cx;
use bytes::Bytes;
use std::pin::Pin;
use std::task::{Context, Poll};

const FLEN: usize = 12;
static mut FILE: [u8; FLEN] = [0; FLEN];
// all mock state in plain statics (see DESIGN.md section 2.9a)
static mut F_POS: u64 = 0;
static mut F_READS: usize = 0;
static mut F_WRITES: usize = 0;
static mut F_SEEKS: usize = 0;
static mut F_FAIL_READ_AT: usize = usize::MAX;
static mut F_FAIL_WRITE_AT: usize = usize::MAX;
/// the F_SHORT_AT-th write call accepts only 1 byte (torn write; write_all must come back for the rest)
static mut F_SHORT_AT: usize = usize::MAX;
static mut F_DRIBBLE: bool = false;
/// log of write calls: (position, length)
static mut W_POS: [u64; 8] = [0; 8];
static mut W_LEN: [usize; 8] = [0; 8];
struct FileIo;
impl AsyncRead for FileIo {
    fn poll_read(self: Pin<&mut Self>, _cx: &mut Context<'_>, buf: &mut tokio::io::ReadBuf<'_>) -> Poll<io::Result<()>> {
        unsafe {
            if F_READS == F_FAIL_READ_AT {
                F_READS += 1;
                return Poll::Ready(Err(io::ErrorKind::Other.into()));
            }
            F_READS += 1;
            let p = F_POS as usize;
            let mut n = buf.remaining();
            if p + n > FLEN {
                n = FLEN - p; // short read at the end of the file (0 = EOF)
            }
            if F_DRIBBLE && n > 1 {
                n = 1;
            }
            buf.put_slice(&FILE[p..p + n]);
            F_POS += n as u64;
        }
        Poll::Ready(Ok(()))
    }
}
impl AsyncWrite for FileIo {
    fn poll_write(self: Pin<&mut Self>, _cx: &mut Context<'_>, buf: &[u8]) -> Poll<io::Result<usize>> {
        unsafe {
            if F_WRITES == F_FAIL_WRITE_AT {
                F_WRITES += 1;
                return Poll::Ready(Err(io::ErrorKind::Other.into()));
            }
            let mut n = buf.len();
            if F_WRITES == F_SHORT_AT && n > 1 {
                n = 1;
            }
            assert!(F_WRITES < 8 && n <= 4, "mock bound");
            W_POS[F_WRITES] = F_POS;
            W_LEN[F_WRITES] = n;
            F_WRITES += 1;
            let p = F_POS as usize;
            assert!(p + n <= FLEN, "write beyond the file");
            if n > 0 {
                FILE[p] = buf[0];
            }
            if n > 1 {
                FILE[p + 1] = buf[1];
            }
            if n > 2 {
                FILE[p + 2] = buf[2];
            }
            if n > 3 {
                FILE[p + 3] = buf[3];
            }
            F_POS += n as u64;
            Poll::Ready(Ok(n))
        }
    }
    fn poll_flush(self: Pin<&mut Self>, _cx: &mut Context<'_>) -> Poll<io::Result<()>> {
        Poll::Ready(Ok(()))
    }
    fn poll_shutdown(self: Pin<&mut Self>, _cx: &mut Context<'_>) -> Poll<io::Result<()>> {
        Poll::Ready(Ok(()))
    }
}
impl AsyncSeek for FileIo {
    fn start_seek(self: Pin<&mut Self>, position: SeekFrom) -> io::Result<()> {
        match position {
            SeekFrom::Start(p) => {
                unsafe {
                    F_POS = p;
                    F_SEEKS += 1;
                }
                Ok(())
            }
            _ => panic!("only absolute seeks expected"),
        }
    }
    fn poll_complete(self: Pin<&mut Self>, _cx: &mut Context<'_>) -> Poll<io::Result<u64>> {
        Poll::Ready(Ok(unsafe { F_POS }))
    }
}
/// chunk identities live in a static (heap objects lose their constness for CBMC: key lengths became symbolic)
static mut HS: [Option<HashSum>; 4] = [None, None, None, None];
static mut HS_N: usize = 0;
fn leak(h: &[u8]) -> &'static HashSum {
    unsafe {
        let k = HS_N;
        HS_N += 1;
        match k {
            0 => {
                HS[0] = Some(HashSum::from(h));
                HS[0].as_ref().unwrap()
            }
            1 => {
                HS[1] = Some(HashSum::from(h));
                HS[1].as_ref().unwrap()
            }
            2 => {
                HS[2] = Some(HashSum::from(h));
                HS[2].as_ref().unwrap()
            }
            _ => {
                HS[3] = Some(HashSum::from(h));
                HS[3].as_ref().unwrap()
            }
        }
    }
}
fn dests1(a: u64) -> Vec<u64> {
    let mut v = Vec::with_capacity(2);
    v.push(a);
    v
}
fn dests2(a: u64, b: u64) -> Vec<u64> {
    let mut v = Vec::with_capacity(2);
    v.push(a);
    v.push(b);
    v
}
fn reset_io(dribble: bool) {
    unsafe {
        F_POS = 0;
        F_READS = 0;
        F_WRITES = 0;
        F_SEEKS = 0;
        F_FAIL_READ_AT = usize::MAX;
        F_FAIL_WRITE_AT = usize::MAX;
        F_SHORT_AT = usize::MAX;
        F_DRIBBLE = dribble;
    }
}
struct ExecRun {
    init: [u8; FLEN],
    result: io::Result<u64>,
    co: CloneOutput<FileIo>,
    strip_size: u64,
}
/// runs reorder_in_place over `plan`; clone index = the given (hash, size, offset) entries
fn exec(plan: Vec<ReorderOp<'static>>, entries: &[(&'static HashSum, usize, u64)], dribble: bool, faults: bool) -> ExecRun {
    let init: [u8; FLEN] = kani::any();
    let strip_n: usize = kani::any();
    let strip_size: u64 = kani::any();
    kani::assume(strip_size < 1 << 32);
    let mut idx = ChunkIndex::new_empty(2);
    let mut i = 0;
    while i < entries.len() {
        crate::chunk_index::kani_proofs::add_entry(&mut idx, entries[i].0.slice(), entries[i].1, entries[i].2);
        i += 1;
    }
    reset_io(dribble);
    unsafe {
        FILE = init;
        if faults {
            F_FAIL_READ_AT = kani::any();
            F_FAIL_WRITE_AT = kani::any();
            F_SHORT_AT = kani::any();
        }
        crate::chunk_index::kani_proofs::PLANNER_SCRIPTED = true;
        crate::chunk_index::kani_proofs::STRIP_RET = (strip_n, strip_size);
        crate::chunk_index::kani_proofs::PLAN = Some(plan);
    }
    let mut co = CloneOutput::new(FileIo, idx);
    let result = co.reorder_in_place(ChunkIndex::new_empty(2));
    ExecRun { init, result, co, strip_size }
}
/// final[at .. at+n] == init[from .. from+n]
fn moved(init: &[u8; FLEN], at: usize, from: usize, n: usize) -> bool {
    let f = unsafe { &FILE };
    (n < 1 || f[at] == init[from]) && (n < 2 || f[at + 1] == init[from + 1]) && (n < 3 || f[at + 2] == init[from + 2]) && (n < 4 || f[at + 3] == init[from + 3])
}
fn no_fault_hit() -> bool {
    unsafe { F_FAIL_READ_AT >= F_READS && F_FAIL_WRITE_AT >= F_WRITES }
}

/// cyclic move with TWO chunks landing inside the pending chunk's old location:
/// X(4)@0 B(2)@4 C(2)@6  ->  B@0 C@2 X@4.  The planner's ops: StoreInMem X, Copy B, StoreInMem X (again), Copy C, Copy X.
fn exec_cycle_double_store(dribble: bool, faults: bool) {
    let (x, b, c) = (leak(&[1, 1]), leak(&[2, 2]), leak(&[3, 3]));
    let mut plan = Vec::with_capacity(5);
    plan.push(ReorderOp::StoreInMem { hash: x, size: 4, source: 0 });
    plan.push(ReorderOp::Copy { hash: b, size: 2, source: 4, dest: dests1(0) });
    plan.push(ReorderOp::StoreInMem { hash: x, size: 4, source: 0 });
    plan.push(ReorderOp::Copy { hash: c, size: 2, source: 6, dest: dests1(2) });
    plan.push(ReorderOp::Copy { hash: x, size: 4, source: 0, dest: dests1(4) });
    let run = exec(plan, &[(x, 4, 4), (b, 2, 0), (c, 2, 2)], dribble, faults);
    let mut failed = false;
    match run.result {
        Ok(total) => {
            assert!(no_fault_hit(), "a failed read or write must fail the run");
            assert!(moved(&run.init, 0, 4, 2), "B's original bytes at its destination");
            assert!(moved(&run.init, 2, 6, 2), "C's original bytes at its destination");
            assert!(moved(&run.init, 4, 0, 4), "X's original bytes (buffered before B overwrote them) at its destination");
            assert!(moved(&run.init, 8, 8, 4), "bytes outside the destinations untouched");
            assert!(total == 8 + run.strip_size);
            assert!(run.co.is_empty(), "moved chunks leave the clone index");
        }
        Err(e) => {
            assert!(faults, "no fault was injected");
            failed = true;
            std::mem::forget(e);
        }
    }
    kani::cover!(!failed);
    kani::cover!(!faults || (failed && unsafe { F_WRITES } > 0)); // failed after part of the plan was executed
    kani::cover!(!faults || (!failed && unsafe { F_SHORT_AT < F_WRITES })); // a torn write was completed by write_all
    std::mem::forget(run.co);
}
/// swap of two chunks of different size: A(2)@0 B(3)@2 -> B@0 A@3.  Ops: StoreInMem A, Copy B, Copy A (from memory).
fn exec_swap(dribble: bool, faults: bool) {
    let (a, b) = (leak(&[1, 1]), leak(&[2, 2]));
    let mut plan = Vec::with_capacity(3);
    plan.push(ReorderOp::StoreInMem { hash: a, size: 2, source: 0 });
    plan.push(ReorderOp::Copy { hash: b, size: 3, source: 2, dest: dests1(0) });
    plan.push(ReorderOp::Copy { hash: a, size: 2, source: 0, dest: dests1(3) });
    let run = exec(plan, &[(a, 2, 3), (b, 3, 0), (leak(&[9, 9]), 2, 7)], dribble, faults);
    let mut failed = false;
    match run.result {
        Ok(total) => {
            assert!(no_fault_hit(), "a failed read or write must fail the run");
            assert!(moved(&run.init, 0, 2, 3), "B's original bytes at its destination");
            assert!(moved(&run.init, 3, 0, 2), "A's original bytes at its destination");
            assert!(moved(&run.init, 5, 5, 4) && moved(&run.init, 9, 9, 3), "bytes outside the destinations untouched");
            assert!(total == 5 + run.strip_size);
            assert!(run.co.len() == 1, "moved chunks leave the clone index, the chunk still to be fetched stays");
            assert!(dribble || unsafe { F_READS } == 2, "a buffered chunk is not read again");
        }
        Err(e) => {
            assert!(faults, "no fault was injected");
            failed = true;
            std::mem::forget(e);
        }
    }
    kani::cover!(!failed);
    kani::cover!(!faults || failed);
    std::mem::forget(run.co);
}
/// a chunk moved onto itself with overlap (A(3)@2 -> @0) and a chunk copied to two destinations (D(2)@6 -> @8 and @10)
fn exec_shift_and_dup(dribble: bool, faults: bool) {
    let (a, d) = (leak(&[1, 1]), leak(&[2, 2]));
    let mut plan = Vec::with_capacity(2);
    plan.push(ReorderOp::Copy { hash: a, size: 3, source: 2, dest: dests1(0) });
    plan.push(ReorderOp::Copy { hash: d, size: 2, source: 6, dest: dests2(8, 10) });
    let run = exec(plan, &[(a, 3, 0), (d, 2, 8)], dribble, faults);
    let mut failed = false;
    match run.result {
        Ok(total) => {
            assert!(no_fault_hit(), "a failed read or write must fail the run");
            assert!(moved(&run.init, 0, 2, 3), "A's original bytes at its destination (source and destination overlap)");
            assert!(moved(&run.init, 8, 6, 2) && moved(&run.init, 10, 6, 2), "D at both of its destinations");
            assert!(moved(&run.init, 3, 3, 4) && moved(&run.init, 7, 7, 1), "bytes outside the destinations untouched");
            assert!(total == 5 + run.strip_size);
            assert!(run.co.is_empty());
        }
        Err(e) => {
            assert!(faults, "no fault was injected");
            failed = true;
            std::mem::forget(e);
        }
    }
    kani::cover!(!failed);
    kani::cover!(!faults || failed);
    std::mem::forget(run.co);
}
macro_rules! exec_run {
    ($name:ident, $f:ident, $dribble:expr, $faults:expr, $unwind:expr) => {
        #[kani::proof]
        #[kani::unwind($unwind)]
        fn $name() {
            $f($dribble, $faults);
        }
    };
}
// unwind: the executor's loop over the plan needs ops + 1; read_exact needs bytes + 1 when dribbling; everything else
// (model map slot drop glue: 5, key hashing/compare: 3, write_all: 3) is below that
exec_run!(c03_run_cycle_double_store, exec_cycle_double_store, false, false, 7);
exec_run!(c03_run_cycle_double_store_dribble, exec_cycle_double_store, true, false, 7);
exec_run!(c03_run_cycle_double_store_faults, exec_cycle_double_store, false, true, 7);
exec_run!(c03_run_swap, exec_swap, false, false, 6);
exec_run!(c03_run_swap_dribble, exec_swap, true, false, 6);
exec_run!(c03_run_swap_faults, exec_swap, false, true, 6);
exec_run!(c03_run_shift_and_dup, exec_shift_and_dup, false, false, 6);
exec_run!(c03_run_shift_and_dup_faults, exec_shift_and_dup, false, true, 6);

// ---------------------------------------------------------------------------
// `feed` over the REAL write loop and the real index lookup, as one unit (C13, C02, C05).
// ---------------------------------------------------------------------------
static SRC: [u8; 4] = [0xA1, 0xB2, 0xC3, 0xD4];
fn feed_unit(n_offsets: usize, hl: usize, size: usize, faults: bool) {
    let key: [u8; 4] = kani::any();
    let hash: [u8; 8] = kani::any();
    let offs: [u64; 2] = kani::any();
    kani::assume(offs[0] <= (FLEN - 4) as u64 && offs[1] <= (FLEN - 4) as u64);
    let init: [u8; FLEN] = kani::any();
    let mut idx = ChunkIndex::new_empty(hl);
    if n_offsets == 2 {
        crate::chunk_index::kani_proofs::add_entry2(&mut idx, &key[..], size, offs[0], offs[1]);
    } else {
        crate::chunk_index::kani_proofs::add_entry(&mut idx, &key[..], size, offs[0]);
    }
    let key2: [u8; 4] = kani::any();
    kani::assume(key2[0] != key[0] && key2[0] != hash[0]);
    crate::chunk_index::kani_proofs::add_entry(&mut idx, &key2[..], 2, 77);
    let other = HashSum::from(&key2[..]);
    let v = VerifiedChunk { chunk: Chunk(Bytes::from_static(&SRC[..size])), hash_sum: HashSum::from(&hash[..]) };
    let hit = hash[0] == key[0] && (hl < 2 || hash[1] == key[1]);
    reset_io(false);
    unsafe {
        FILE = init;
        if faults {
            F_FAIL_WRITE_AT = kani::any();
            F_SHORT_AT = kani::any();
        }
        crate::chunk_index::kani_proofs::ADD_SCRIPTED = true;
    }
    let mut co = CloneOutput::new(FileIo, idx);
    let r = co.feed(&v);
    let writes = unsafe { F_WRITES };
    let mut failed = false;
    if hit {
        match r {
            Ok(n) => {
                assert!(no_fault_hit(), "a failed write must fail the feed");
                assert!(n == n_offsets * size, "byte count = locations x chunk length");
                // the fed chunk's bytes, all of them, at every one of the entry's offsets (a later location may
                // overlap an earlier one: the last write wins, so check in order)
                let f = unsafe { &FILE };
                let last = offs[n_offsets - 1] as usize;
                assert!((size < 1 || f[last] == SRC[0]) && (size < 2 || f[last + 1] == SRC[1]) && (size < 3 || f[last + 2] == SRC[2]));
                assert!(unsafe { F_SEEKS } == n_offsets, "one seek per location");
                assert!(unsafe { W_POS[0] } == offs[0], "the first write goes to the first location");
                kani::cover!(hl == 1 || hash[1] == key[1]);
            }
            Err(e) => {
                assert!(faults, "no fault was injected");
                failed = true;
                std::mem::forget(e);
            }
        }
        assert!(co.len() == 1 && !co.chunks().contains(v.hash()), "the entry is gone");
    } else {
        assert!(writes == 0 && unsafe { F_SEEKS } == 0, "nothing is written for a chunk that is not in the index");
        assert!(matches!(r, Ok(0)) && co.len() == 2);
        std::mem::forget(r);
    }
    assert!(co.chunks().contains(&other), "unrelated entries stay");
    assert!(unsafe { crate::chunk_index::kani_proofs::ADD_CALLS } == 0, "feed never puts an entry (back) into the clone index");
    // nothing outside the written locations changed
    if !hit {
        let f = unsafe { &FILE };
        assert!(f[0] == init[0] && f[5] == init[5] && f[11] == init[11]);
    }
    // a second feed of the same chunk writes nothing more
    let r2 = co.feed(&v);
    assert!(unsafe { F_WRITES } == writes, "a location is written at most once: the duplicate writes nothing");
    std::mem::forget(r2);
    kani::cover!(hit && !failed);
    kani::cover!(!faults || failed);
    kani::cover!(!hit);
    std::mem::forget(co);
    std::mem::forget(v);
    std::mem::forget(other);
}
macro_rules! feed_unit {
    ($name:ident, $n:expr, $hl:expr, $size:expr, $faults:expr) => {
        #[kani::proof]
        #[kani::unwind(6)]
        fn $name() {
            feed_unit($n, $hl, $size, $faults);
        }
    };
}
feed_unit!(c13_feed_unit_o1_h1_s2, 1, 1, 2, false);
feed_unit!(c13_feed_unit_o2_h2_s3, 2, 2, 3, false);
feed_unit!(c13_feed_unit_o2_h1_s2_faults, 2, 1, 2, true);
