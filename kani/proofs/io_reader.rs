//! Proofs about `IoReader` / `IoChunkReader` (child module of
//! bitar::archive_reader::io_reader).  One `poll_chunk` per harness from an
//! injected state (multi-poll runs do not get through the solver).
//!
//! Invariant J (state Read): buf[..buf_offset] == file[chunk.offset ..][..buf_offset]
//! and the reader's cursor is at chunk.offset + buf_offset.
#![allow(dead_code, unused_imports)]
use super::*;
use crate::verif_support::{bytes_match, noop_cx};
use std::future::Future;

const FLEN: usize = 32;
static FILE: [u8; FLEN] = {
    let mut t = [0u8; FLEN];
    let mut i = 0;
    while i < FLEN {
        t[i] = (i as u8).wrapping_mul(5).wrapping_add(1);
        i += 1;
    }
    t
};

/// one scripted answer per call: 0 = EOF (no bytes), 1..=4 = short read of
/// that many bytes (clamped to what was asked and what the file has),
/// 5 = Pending, 6 = error
struct Mock {
    pos: u64,
    answer: u8,
    reads: usize,
    seeks: usize,
    seek_target: u64,
    seek_fail: bool,
    complete_pending: bool,
    asked: usize,
}
fn mock(pos: u64, answer: u8) -> Mock {
    Mock { pos, answer, reads: 0, seeks: 0, seek_target: 0, seek_fail: false, complete_pending: false, asked: 0 }
}
impl AsyncRead for Mock {
    fn poll_read(mut self: Pin<&mut Self>, _cx: &mut Context<'_>, buf: &mut ReadBuf<'_>) -> Poll<io::Result<()>> {
        let me = &mut *self;
        me.reads += 1;
        me.asked = buf.remaining();
        let a = if me.reads == 1 { me.answer } else { 5 };
        match a {
            0 => Poll::Ready(Ok(())),
            5 => Poll::Pending,
            6 => Poll::Ready(Err(io::ErrorKind::Other.into())),
            n => {
                let mut n = n as usize;
                let avail = if me.pos as usize >= FLEN { 0 } else { FLEN - me.pos as usize };
                if n > avail {
                    n = avail;
                }
                if n > buf.remaining() {
                    n = buf.remaining();
                }
                buf.put_slice(&FILE[me.pos as usize..me.pos as usize + n]);
                me.pos += n as u64;
                Poll::Ready(Ok(()))
            }
        }
    }
}
impl AsyncSeek for Mock {
    fn start_seek(mut self: Pin<&mut Self>, position: io::SeekFrom) -> io::Result<()> {
        self.seeks += 1;
        if self.seek_fail {
            return Err(io::ErrorKind::Other.into());
        }
        match position {
            io::SeekFrom::Start(p) => {
                self.seek_target = p;
                self.pos = p;
                Ok(())
            }
            _ => panic!("only absolute seeks are expected"),
        }
    }
    fn poll_complete(mut self: Pin<&mut Self>, _cx: &mut Context<'_>) -> Poll<io::Result<u64>> {
        if self.complete_pending {
            self.complete_pending = false;
            return Poll::Pending;
        }
        Poll::Ready(Ok(self.pos))
    }
}

fn two_chunks() -> ([u64; 2], [usize; 2], Vec<ChunkOffset>) {
    let s: [u8; 2] = kani::any();
    kani::assume(s[0] >= 1 && s[0] <= 4 && s[1] >= 1 && s[1] <= 4);
    two_chunks_sized(s[0], s[1])
}
/// sizes concrete per harness instance (resize/clone/freeze of a BytesMut with a symbolic length do not get
/// through the solver), offsets symbolic
fn two_chunks_sized(s0: u8, s1: u8) -> ([u64; 2], [usize; 2], Vec<ChunkOffset>) {
    let o: [u8; 2] = kani::any();
    let s = [s0, s1];
    kani::assume(o[0] < 20 && o[1] < 20);
    let mut v = Vec::with_capacity(2);
    v.push(ChunkOffset::new(o[0] as u64, s[0] as usize));
    v.push(ChunkOffset::new(o[1] as u64, s[1] as usize));
    ([o[0] as u64, o[1] as u64], [s[0] as usize, s[1] as usize], v)
}

// ---------------------------------------------------------------------------
// C08-5a / C17: state Seek: the reader seeks to exactly chunk.offset, for
// any order of offsets (no adjacency assumed), then reads.
// ---------------------------------------------------------------------------
fn io_seek_step(s0: u8, s1: u8, blen: usize, idx: usize) {
    // position concrete per instance: with sizes and position concrete "is the chunk complete?" is decided
    // statically and the emit path (clone/truncate/freeze) stays out of this harness' formula
    let (o, s, chunks) = two_chunks_sized(s0, s1);
    // the cursor is wherever the previous chunk left it
    let cur: u64 = kani::any();
    kani::assume(cur < 24);
    let mut m = mock(cur, 5); // first read answers Pending: stop right after the seek
    m.seek_fail = kani::any();
    m.complete_pending = kani::any();
    let cp = m.complete_pending;
    let sf = m.seek_fail;
    // buffer as left by the previous chunk
    let mut buf = BytesMut::with_capacity(8);
    buf.resize(blen, 0);
    // (constructor + field assignment rather than a struct literal: a field added to the reader by a change of the
    // code under test must not break the harness)
    let mut r = IoChunkReader::new(&mut m, chunks);
    r.state = IoChunkReaderState::Seek;
    r.chunk_index = idx;
    r.buf = buf;
    r.buf_offset = 0;
    let mut cx = noop_cx();
    let res = r.poll_chunk(&mut cx);
    match res {
        Poll::Ready(Some(Err(e))) => {
            assert!(sf);
            std::mem::forget(e);
        }
        Poll::Pending => {
            assert!(!sf);
            assert!(r.reader.seeks == 1 && r.reader.seek_target == o[idx]);
            if cp {
                assert!(matches!(r.state, IoChunkReaderState::PollSeek));
                assert!(r.reader.reads == 0);
            } else {
                // seek complete, first read issued for exactly the chunk's size
                assert!(matches!(r.state, IoChunkReaderState::Read));
                assert!(r.reader.reads == 1 && r.reader.asked == s[idx]);
                assert!(r.buf.len() == s[idx]);
            }
            assert!(r.buf_offset == 0 && r.chunk_index == idx);
        }
        _ => assert!(false),
    }
    kani::cover!(o[1] < o[0]); // descending offsets
    kani::cover!(cp);
    std::mem::forget(r);
}
#[kani::proof]
#[kani::unwind(5)]
fn c08_io_seek_step_s2_s3_b0() {
    io_seek_step(2, 3, 0, 0);
}
#[kani::proof]
#[kani::unwind(5)]
fn c08_io_seek_step_s2_s3_b2_i1() {
    io_seek_step(2, 3, 2, 1);
}
#[kani::proof]
#[kani::unwind(5)]
fn c08_io_seek_step_s3_s1_b3() {
    io_seek_step(3, 1, 3, 1);
}
#[kani::proof]
#[kani::unwind(5)]
fn c08_io_seek_step_s1_s4_b2() {
    io_seek_step(1, 4, 2, 0);
}

// ---------------------------------------------------------------------------
// C08-5b: state Read with J: one answer of the reader
// ---------------------------------------------------------------------------
fn io_read_step(size: u8, bo: usize) {
    io_read_step_k(size, bo, 0, 0)
}
fn io_read_step_k(size: u8, bo: usize, kind: u8, idx: usize) {
    // concrete position (see io_seek_step); offsets -- incl. the following chunk's -- are symbolic
    let (o, s, chunks) = two_chunks_sized(size, size);
    let answer: u8 = kani::any();
    kani::assume(answer <= 6);
    match kind {
        1 => kani::assume(answer == 0 || answer >= 5),
        2 => kani::assume(answer == 1),
        3 => kani::assume(answer == 4),
        _ => {}
    }
    let mut m = mock(o[idx] + bo as u64, answer);
    // J: buffer of the chunk's size whose first bo bytes are the file's
    let mut buf = BytesMut::with_capacity(8);
    buf.resize(s[idx], 0xEE);
    let mut j = 0;
    while j < 4 {
        if j < bo {
            buf[j] = FILE[o[idx] as usize + j];
        }
        j += 1;
    }
    // (constructor + field assignment rather than a struct literal: a field added to the reader by a change of the
    // code under test must not break the harness)
    let mut r = IoChunkReader::new(&mut m, chunks);
    r.state = IoChunkReaderState::Read;
    r.chunk_index = idx;
    r.buf = buf;
    r.buf_offset = bo;
    let mut cx = noop_cx();
    let res = r.poll_chunk(&mut cx);
    match res {
        Poll::Ready(Some(Ok(b))) => {
            // the chunk is complete: exactly its bytes
            assert!(answer >= 1 && answer <= 4 && bo + answer as usize >= s[idx]);
            assert!(b.len() == s[idx]);
            assert!(bytes_match(&b[..], &FILE[..], o[idx] as usize));
            assert!(r.chunk_index == idx + 1 && r.buf_offset == 0);
            // the next chunk is located by its own offset: either a seek is pending, or (an optimisation a
            // correct reader may make) the cursor already is exactly at the next chunk's offset
            let at_next = r.chunk_index < 2 && r.reader.pos == o[if r.chunk_index < 2 { r.chunk_index } else { 0 }];
            assert!(matches!(r.state, IoChunkReaderState::Seek) || (matches!(r.state, IoChunkReaderState::Read) && at_next));
            kani::cover!(true);
            std::mem::forget(b);
        }
        Poll::Pending => {
            if answer == 5 {
                // nothing changes
                assert!(r.buf_offset == bo && r.reader.reads == 1);
            } else {
                // a short read: progress kept, J again, then the reader was asked again for the rest
                assert!(answer >= 1 && answer <= 4);
                assert!(r.buf_offset == bo + answer as usize && r.buf_offset < s[idx]);
                assert!(r.reader.reads == 2 && r.reader.asked == s[idx] - r.buf_offset);
            }
            assert!(r.chunk_index == idx);
            assert!(bytes_match(&r.buf[..r.buf_offset], &FILE[..], o[idx] as usize));
            assert!(r.reader.pos == o[idx] + r.buf_offset as u64);
        }
        Poll::Ready(Some(Err(e))) => {
            assert!(answer == 0 || answer == 6);
            if answer == 0 {
                assert!(e.kind() == io::ErrorKind::UnexpectedEof); // early end is an error, never a short chunk
            }
            std::mem::forget(e);
        }
        Poll::Ready(None) => assert!(false),
    }
    kani::cover!(answer == 0);
    std::mem::forget(r);
}
macro_rules! io_read_step {
    ($name:ident, $size:expr, $bo:expr) => {
        #[kani::proof]
        #[kani::unwind(6)]
        fn $name() {
            io_read_step($size, $bo);
        }
    };
}
io_read_step!(c08_io_read_step_s1_b0, 1, 0);
io_read_step!(c08_io_read_step_s2_b0, 2, 0);
io_read_step!(c08_io_read_step_s2_b1, 2, 1);
io_read_step!(c08_io_read_step_s3_b0, 3, 0);
io_read_step!(c08_io_read_step_s3_b1, 3, 1);
io_read_step!(c08_io_read_step_s3_b2, 3, 2);
io_read_step!(c08_io_read_step_s4_b1, 4, 1);
/// the chunk being read is the last of the list
#[kani::proof]
#[kani::unwind(6)]
fn c08_io_read_step_s2_b1_last() {
    io_read_step_k(2, 1, 0, 1);
}
#[kani::proof]
#[kani::unwind(6)]
fn c08_io_read_step_s3_b0_last() {
    io_read_step_k(3, 0, 0, 1);
}

// ---------------------------------------------------------------------------
// end of list / C15: zero-size ranges
// ---------------------------------------------------------------------------
#[kani::proof]
#[kani::unwind(5)]
fn c08_io_end_of_list() {
    let (_o, _s, chunks) = two_chunks();
    let mut m = mock(0, 6);
    // (constructor + field assignment rather than a struct literal: a field added to the reader by a change of the
    // code under test must not break the harness)
    let mut r = IoChunkReader::new(&mut m, chunks);
    r.state = IoChunkReaderState::Seek;
    r.chunk_index = 2;
    r.buf = BytesMut::new();
    r.buf_offset = 0;
    let mut cx = noop_cx();
    assert!(matches!(r.poll_chunk(&mut cx), Poll::Ready(None)));
    assert!(r.reader.reads == 0 && r.reader.seeks == 0);
    kani::cover!(true);
    std::mem::forget(r);
}

/// A zero-length range must yield zero bytes (C08: "exactly those ranges'
/// bytes"; C15: a descriptor with stored size 0 comes from an untrusted
/// dictionary).  State: just emitted the previous chunk.
#[kani::proof]
#[kani::unwind(5)]
fn c08_io_zero_size_range() {
    let prev: usize = kani::any();
    kani::assume(prev <= 3);
    let mut chunks = Vec::with_capacity(1);
    chunks.push(ChunkOffset::new(kani::any::<u8>() as u64, 0));
    let mut m = mock(0, 6);
    let mut buf = BytesMut::with_capacity(8);
    buf.resize(prev, 0x77); // what the previous chunk left in the buffer
    // (constructor + field assignment rather than a struct literal: a field added to the reader by a change of the
    // code under test must not break the harness)
    let mut r = IoChunkReader::new(&mut m, chunks);
    r.state = IoChunkReaderState::Seek;
    r.chunk_index = 0;
    r.buf = buf;
    r.buf_offset = 0;
    let mut cx = noop_cx();
    match r.poll_chunk(&mut cx) {
        Poll::Ready(Some(Ok(b))) => {
            assert!(b.len() == 0, "a zero-length range yields the previous chunk's bytes");
            std::mem::forget(b);
        }
        Poll::Ready(Some(Err(e))) => std::mem::forget(e),
        _ => {}
    }
    kani::cover!(prev > 0);
    std::mem::forget(r);
}

// ---------------------------------------------------------------------------
// C08-4: read_at: exactly `size` bytes of file[offset..] or UnexpectedEof
// ---------------------------------------------------------------------------
#[kani::proof]
#[kani::unwind(5)]
fn c08_io_read_at() {
    let offset: u64 = kani::any();
    let size: usize = kani::any();
    kani::assume(offset < 30 && size >= 1 && size <= 3);
    let answer: u8 = kani::any();
    kani::assume(answer <= 6 && answer != 5);
    let mut rd = IoReader::new(mock(7, answer));
    let mut cx = noop_cx();
    let res = {
        let fut = rd.read_at(offset, size);
        tokio::pin!(fut);
        match fut.as_mut().poll(&mut cx) {
            Poll::Ready(r) => Some(r),
            Poll::Pending => None,
        }
    };
    match res {
        Some(Ok(b)) => {
            assert!(b.len() == size);
            assert!(bytes_match(&b[..size], &FILE[..], offset as usize));
            kani::cover!(true);
            std::mem::forget(b);
        }
        Some(Err(e)) => {
            assert!(answer == 0 || answer == 6 || offset as usize >= FLEN);
            std::mem::forget(e);
        }
        None => {
            // second read answered Pending: first one was short
            assert!((answer as usize) < size || (FLEN - (offset as usize)) < size);
        }
    }
    assert!(rd.0.seeks == 1 && rd.0.seek_target == offset);
    std::mem::forget(rd);
}


// ---------------------------------------------------------------------------
// C17 / C08 -- the local reader's ENTRY: `IoChunkReader::new` (what `IoReader::read_chunks` boxes).  The step
// harnesses above build the reader state directly; this one goes through the constructor with a chunk list in ANY
// order and checks that the list is taken as given: the first poll seeks to the FIRST LISTED chunk's own offset and
// asks for exactly its size (item i of the stream is paired with descriptor i by Archive::chunk_stream, so a reader
// that reorders its list breaks every archive whose chunks are not stored in descriptor order).
// ---------------------------------------------------------------------------
fn io_entry(s0: u8, s1: u8) {
    let (o, s, chunks) = two_chunks_sized(s0, s1);
    io_entry_at(o, s, chunks, false);
}
/// the same with a CONCRETE descending layout (a reordering reader runs a sort, which CBMC only gets through on
/// concrete values)
fn io_entry_desc() {
    let mut v = Vec::with_capacity(2);
    v.push(ChunkOffset::new(17, 2));
    v.push(ChunkOffset::new(3, 3));
    io_entry_at([17, 3], [2, 3], v, true);
}
fn io_entry_at(o: [u64; 2], s: [usize; 2], chunks: Vec<ChunkOffset>, concrete: bool) {
    let cur: u64 = kani::any();
    kani::assume(cur < 24);
    let mut m = mock(cur, 5); // the first read answers Pending: stop right after the seek
    let mut r = IoChunkReader::new(&mut m, chunks);
    let mut cx = noop_cx();
    let res = r.poll_chunk(&mut cx);
    assert!(matches!(res, Poll::Pending));
    assert!(r.reader.seeks == 1 && r.reader.seek_target == o[0], "the first seek goes to the first LISTED chunk");
    assert!(r.reader.reads == 1 && r.reader.asked == s[0], "and exactly its size is asked for");
    assert!(r.chunk_index == 0 && r.chunks.len() == 2);
    assert!(r.chunks[1].offset == o[1] && r.chunks[1].size == s[1], "the rest of the list is untouched");
    kani::cover!(o[1] < o[0]); // stored in descending order
    kani::cover!(concrete || o[0] + s[0] as u64 == o[1]); // adjacent
    std::mem::forget(res);
    std::mem::forget(r);
}
#[kani::proof]
#[kani::unwind(8)]
fn c17_io_read_chunks_entry_desc() {
    io_entry_desc();
}
#[kani::proof]
#[kani::unwind(5)]
fn c17_io_read_chunks_entry_s2_s3() {
    io_entry(2, 3);
}
#[kani::proof]
#[kani::unwind(5)]
fn c17_io_read_chunks_entry_s3_s1() {
    io_entry(3, 1);
}
