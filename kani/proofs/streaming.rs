//! One `poll_next` of `StreamingChunker` from an arbitrary injected state
//! (C09: tiling, offsets, read-size/Pending independence; the glue around any
//! `Chunker`).  Invariant T: the reader's cursor == chunk_start + buf.len()
//! and buf == source[chunk_start .. cursor].  Each step keeps T and every item
//! is exactly source[old chunk_start ..][..n] at offset old chunk_start, so by
//! induction the items tile the source contiguously from 0, whatever the read
//! sizes and Pending results are.
#![allow(dead_code, unused_imports)]
use super::*;
use crate::verif_support::{bytes_match, noop_cx};
use tokio::io::ReadBuf;

const FLEN: usize = 24;
static FILE: [u8; FLEN] = {
    let mut t = [0u8; FLEN];
    let mut i = 0;
    while i < FLEN {
        t[i] = (i as u8).wrapping_mul(11).wrapping_add(5);
        i += 1;
    }
    t
};

/// reader: answers from a script; each answer is n>0 bytes (short read),
/// Pending, EOF (0 bytes) or an error
struct MockReader {
    pos: usize,
    script: [u8; 3], // 0 = EOF, 1..=4 = that many bytes, 5 = Pending, 6 = Err
    k: usize,
    calls: usize,
}
impl AsyncRead for MockReader {
    fn poll_read(mut self: Pin<&mut Self>, _cx: &mut Context<'_>, buf: &mut ReadBuf<'_>) -> Poll<io::Result<()>> {
        let me = &mut *self;
        me.calls += 1;
        let a = if me.k < 3 { me.script[me.k] } else { 5 };
        me.k += 1;
        match a {
            0 => Poll::Ready(Ok(())),
            5 => Poll::Pending,
            6 => Poll::Ready(Err(io::ErrorKind::Other.into())),
            n => {
                let mut n = n as usize;
                if n > FLEN - me.pos {
                    n = FLEN - me.pos;
                }
                if n > buf.remaining() {
                    n = buf.remaining();
                }
                buf.put_slice(&FILE[me.pos..me.pos + n]);
                me.pos += n;
                Poll::Ready(Ok(()))
            }
        }
    }
}

/// chunker: any behaviour the `Chunker` contract allows -- split a non-empty
/// prefix of the buffer off, or ask for more data
struct MockChunker {
    script: [u8; 3], // 0 = None, n = split n bytes (clamped to 1..=len)
    k: usize,
}
impl Chunker for MockChunker {
    fn next(&mut self, buf: &mut BytesMut) -> Option<Chunk> {
        let a = if self.k < 3 { self.script[self.k] } else { 0 };
        self.k += 1;
        if a == 0 || buf.is_empty() {
            return None;
        }
        let mut n = a as usize;
        if n > buf.len() {
            n = buf.len();
        }
        Some(Chunk(buf.split_to(n).freeze()))
    }
}

fn any_state(blen_max: usize, cap: usize, reads: usize) -> (StreamingChunker<MockChunker, MockReader>, u64, usize) {
    let chunk_start: u64 = kani::any();
    let blen: usize = kani::any();
    kani::assume(chunk_start <= 8 && blen <= blen_max);
    let rs: [u8; 3] = kani::any();
    kani::assume(rs[0] <= 6 && rs[1] <= 6 && rs[2] <= 6);
    kani::assume(reads >= 3 || rs[2] == 5);
    kani::assume(reads >= 2 || rs[1] == 5);
    let cs: [u8; 3] = kani::any();
    kani::assume(cs[0] <= 6 && cs[1] <= 6 && cs[2] <= 6);
    let reader = MockReader { pos: chunk_start as usize + blen, script: rs, k: 0, calls: 0 };
    let mut s = StreamingChunker::new(MockChunker { script: cs, k: 0 }, reader);
    s.chunk_start = chunk_start;
    s.buf = BytesMut::with_capacity(cap);
    s.buf.extend_from_slice(&FILE[chunk_start as usize..chunk_start as usize + blen]);
    (s, chunk_start, blen)
}

fn inv_t(s: &StreamingChunker<MockChunker, MockReader>) -> bool {
    let cs = s.chunk_start as usize;
    cs + s.buf.len() == s.reader.pos && s.buf.len() <= 8 && bytes_match(&s.buf[..], &FILE[..], cs)
}

#[kani::proof]
#[kani::unwind(3)]
fn c09_streaming_step_noreserve() {
    // buffer already has room for a refill: the reserve() branch is not taken
    streaming_step(4, 4 + REFILL_SIZE, 1);
}
#[kani::proof]
#[kani::unwind(3)]
fn c09_streaming_step_reserve() {
    // small buffer: the reserve(REFILL_SIZE) branch is taken before reading
    streaming_step(3, 4, 1);
}
#[kani::proof]
#[kani::unwind(3)]
fn c09_streaming_step_two_reads() {
    streaming_step(3, 12 + REFILL_SIZE, 2);
}
fn streaming_step(blen_max: usize, cap: usize, reads: usize) {
    let (mut s, cs0, blen0) = any_state(blen_max, cap, reads);
    let mut cx = noop_cx();
    let r = Pin::new(&mut s).poll_next(&mut cx);
    match r {
        Poll::Ready(Some(Ok((off, chunk)))) => {
            // the item starts where the previous one ended ...
            assert!(off == cs0);
            // ... and is exactly the source bytes at that offset
            let n = chunk.len();
            assert!(n >= 1 && n <= 8);
            assert!(bytes_match(chunk.data(), &FILE[..], cs0 as usize));
            let eof_tail = s.reader.k > 0 && s.reader.script[s.reader.k - 1] == 0 && s.buf.is_empty() && s.chunk_start == cs0;
            if eof_tail {
                // tail at end of stream: everything that was buffered, once
                assert!(cs0 as usize + n == s.reader.pos);
                kani::cover!(n > blen0); // tail includes bytes read in this very poll
            } else {
                assert!(s.chunk_start == cs0 + n as u64);
                assert!(inv_t(&s));
                kani::cover!(n > blen0); // chunk spans a refill
                kani::cover!(s.reader.calls == 0); // chunk found without reading
            }
            std::mem::forget(chunk);
        }
        Poll::Ready(Some(Err(e))) => {
            // only a reader error ends up here, and it is the last thing the reader said
            assert!(s.reader.k > 0 && s.reader.script[s.reader.k - 1] == 6);
            std::mem::forget(e);
        }
        Poll::Ready(None) => {
            // end of stream only when the reader said EOF and nothing is buffered
            assert!(s.reader.k > 0 && s.reader.script[s.reader.k - 1] == 0);
            assert!(s.buf.is_empty());
            assert!(s.chunk_start as usize == s.reader.pos);
            kani::cover!(blen0 == 0);
        }
        Poll::Pending => {
            assert!(s.reader.k > 0 && s.reader.script[s.reader.k - 1] == 5);
            assert!(s.chunk_start == cs0);
            assert!(inv_t(&s));
            kani::cover!(s.buf.len() > blen0); // progress made before the Pending is kept
        }
    }
    std::mem::forget(s);
}

// ===========================================================================
// Scenario runs.  The one-poll step above does not get through the solver with
// symbolic lengths; with every LENGTH concrete (read sizes, Pending points,
// chunk size) CBMC follows the control flow concretely and whole multi-poll
// runs finish in seconds -- while every BYTE of the source stays symbolic, so
// "item i is exactly the source bytes at its offset" is decided for all
// contents.  Each scenario is a read script for the real FixedSizeChunker
// (the wrapper is generic in the chunker; the rolling-hash chunkers' own
// refill behaviour is the subject of proofs/rh_chunker.rs).
// ===========================================================================
/// reader over a symbolic source: script entry 1..=8 = short read of that many bytes, 0 = EOF, 9 = Pending, 15 = error
struct ScriptReader<const L: usize> {
    src: [u8; L],
    len: usize,
    pos: usize,
    script: [u8; 10],
    k: usize,
}
impl<const L: usize> AsyncRead for ScriptReader<L> {
    fn poll_read(mut self: Pin<&mut Self>, _cx: &mut Context<'_>, buf: &mut ReadBuf<'_>) -> Poll<io::Result<()>> {
        let me = &mut *self;
        let a = if me.k < 10 { me.script[me.k] } else { 0 };
        me.k += 1;
        match a {
            9 => Poll::Pending,
            15 => Poll::Ready(Err(io::ErrorKind::Other.into())),
            n => {
                let mut n = n as usize;
                if n > me.len - me.pos {
                    n = me.len - me.pos;
                }
                assert!(n <= buf.remaining());
                buf.put_slice(&me.src[me.pos..me.pos + n]);
                me.pos += n;
                Poll::Ready(Ok(()))
            }
        }
    }
}
/// run the stream to its end; returns (number of items, offsets, lengths), asserting every item's bytes
fn run_scenario<const L: usize>(len: usize, chunk: usize, script: [u8; 10], max_polls: usize) {
    let src: [u8; L] = kani::any();
    let reader = ScriptReader::<L> { src, len, pos: 0, script, k: 0 };
    let mut s = StreamingChunker::new(crate::chunker::FixedSizeChunker::new(chunk), reader);
    let mut cx = noop_cx();
    let mut next_off: u64 = 0;
    let mut items = 0;
    let mut ended = false;
    let mut pendings = 0;
    let mut p = 0;
    while p < max_polls && !ended {
        p += 1;
        match Pin::new(&mut s).poll_next(&mut cx) {
            Poll::Ready(Some(Ok((off, c)))) => {
                // contiguous from 0, exactly the source bytes at that offset
                assert!(off == next_off);
                let n = c.len();
                assert!(n >= 1 && off as usize + n <= len);
                let mut j = 0;
                while j < L {
                    if j < n {
                        assert!(c.data()[j] == src[off as usize + j]);
                    }
                    j += 1;
                }
                // every chunk but the last has exactly the fixed size
                assert!(n == chunk || off as usize + n == len);
                next_off += n as u64;
                items += 1;
                std::mem::forget(c);
            }
            Poll::Ready(Some(Err(e))) => {
                assert!(false, "no error in this script");
                std::mem::forget(e);
            }
            Poll::Ready(None) => ended = true,
            Poll::Pending => pendings += 1,
        }
    }
    // the chunks tile the whole source, then the stream ends
    assert!(ended);
    assert!(next_off as usize == len);
    assert!(items == (len + chunk - 1) / chunk);
    kani::cover!(pendings > 0 || script[1] != 9);
    std::mem::forget(s);
}
macro_rules! scenario {
    ($name:ident, $l:expr, $len:expr, $chunk:expr, $script:expr, $polls:expr) => {
        #[kani::proof]
        #[kani::unwind(12)]
        fn $name() {
            run_scenario::<$l>($len, $chunk, $script, $polls);
        }
    };
}
// 7 bytes, chunk 3: reads 2, Pending, 3, 2, EOF
scenario!(c09_stream_run_a, 7, 7, 3, [2, 9, 3, 2, 0, 0, 0, 0, 0, 0], 9);
// 6 bytes, chunk 3 (length a multiple of the chunk size: no tail): reads 3, 3, EOF
scenario!(c09_stream_run_b, 6, 6, 3, [3, 3, 0, 0, 0, 0, 0, 0, 0, 0], 8);
// 5 bytes, chunk 2, one byte per read with a Pending before every read
scenario!(c09_stream_run_c, 5, 5, 2, [9, 1, 9, 1, 9, 1, 9, 1, 9, 1], 10);
// 4 bytes, chunk 3: everything in one read, Pending before EOF
scenario!(c09_stream_run_d, 4, 4, 3, [4, 9, 0, 0, 0, 0, 0, 0, 0, 0], 8);
// empty source
scenario!(c09_stream_run_e, 1, 0, 3, [0, 0, 0, 0, 0, 0, 0, 0, 0, 0], 3);
// 8 bytes = REFILL_SIZE (mirror), chunk 5: a read that fills the buffer exactly, tail after a Pending
scenario!(c09_stream_run_f, 8, 8, 5, [8, 9, 0, 0, 0, 0, 0, 0, 0, 0], 8);
// 9 bytes > REFILL_SIZE, chunk 4: reads 5, 4
scenario!(c09_stream_run_g, 9, 9, 4, [5, 4, 0, 0, 0, 0, 0, 0, 0, 0], 9);

// ---------------------------------------------------------------------------
// Scenario runs with a content-defined chunker that is a pure function of the
// buffer: cut right after the first byte with the top bit set (min 1, no max).
// Where the chunks fall now depends on the symbolic bytes, so one run covers
// every placement of boundaries relative to the read script -- e.g. a refill
// that leaves the buffer as long as it was at the last unsuccessful scan.
// The expected chunk sequence is the same rule applied to the whole source.
// ---------------------------------------------------------------------------
/// Chunk boundaries at given absolute stream positions (bit j of `pattern` = a chunk ends after byte j): stands
/// for any content-defined chunker on any content that puts its boundaries there.  The decision is a function of
/// (stream position of the buffer start, buffer length) only -- not of how often `next` is called -- and its
/// control flow is concrete.
struct MarkerChunker {
    consumed: usize,
    pattern: u32,
}
impl Chunker for MarkerChunker {
    fn next(&mut self, buf: &mut BytesMut) -> Option<Chunk> {
        let mut i = 0;
        while i < buf.len() {
            if self.pattern & (1 << (self.consumed + i)) != 0 {
                self.consumed += i + 1;
                return Some(Chunk(buf.split_to(i + 1).freeze()));
            }
            i += 1;
        }
        None
    }
}
/// `pattern`: bit j set = a chunk ends after source byte j (concrete); every source byte is symbolic.
fn run_marker_scenario<const L: usize>(pattern: u32, script: [u8; 10], max_polls: usize) {
    let src: [u8; L] = kani::any();
    // expected chunk ends by the rule on the whole source
    let mut expect_end = [0usize; L];
    let mut n_expect = 0;
    let mut j = 0;
    while j < L {
        if pattern & (1 << j) != 0 || j + 1 == L {
            expect_end[n_expect] = j + 1;
            n_expect += 1;
        }
        j += 1;
    }
    let reader = ScriptReader::<L> { src, len: L, pos: 0, script, k: 0 };
    let mut s = StreamingChunker::new(MarkerChunker { consumed: 0, pattern }, reader);
    let mut cx = noop_cx();
    let mut next_off: usize = 0;
    let mut items = 0;
    let mut ended = false;
    let mut p = 0;
    while p < max_polls && !ended {
        p += 1;
        match Pin::new(&mut s).poll_next(&mut cx) {
            Poll::Ready(Some(Ok((off, c)))) => {
                assert!(off as usize == next_off);
                assert!(items < n_expect, "more chunks than the rule gives");
                assert!(off as usize + c.len() == expect_end[items], "chunk end differs from the rule applied to the whole stream: chunking depends on how reads were fragmented");
                let mut j = 0;
                while j < L {
                    if j < c.len() {
                        assert!(c.data()[j] == src[next_off + j]);
                    }
                    j += 1;
                }
                next_off += c.len();
                items += 1;
                std::mem::forget(c);
            }
            Poll::Ready(Some(Err(e))) => {
                assert!(false, "no error in this script");
                std::mem::forget(e);
            }
            Poll::Ready(None) => ended = true,
            Poll::Pending => {}
        }
    }
    assert!(ended && next_off == L && items == n_expect);
    kani::cover!(true);
    std::mem::forget(s);
}
macro_rules! marker_scenarios {
    ($( ($name:ident, $pattern:expr, $script:expr) ),* $(,)?) => {
        $(
            #[kani::proof]
            #[kani::unwind(12)]
            fn $name() {
                run_marker_scenario::<5>($pattern, $script, 10);
            }
        )*
    };
}
include!("streaming_marker_grid.rs");
