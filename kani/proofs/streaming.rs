//! One `poll_next` of `StreamingChunker` from an arbitrary injected state
//! (C09: tiling, offsets, read-size/Pending independence; the glue around any
//! `Chunker`).  Invariant T: the reader's cursor == chunk_start + buf.len()
//! and buf == source[chunk_start .. cursor].  Each step keeps T and every item
//! is exactly source[old chunk_start ..][..n] at offset old chunk_start, so by
//! induction the items tile the source contiguously from 0, whatever the read
//! sizes and Pending results are.
#![allow(dead_code, unused_imports)]
use super::*;
use crate::verif_support::{bytes_match, noop_cx};
use tokio::io::ReadBuf;

const FLEN: usize = 24;
static FILE: [u8; FLEN] = {
    let mut t = [0u8; FLEN];
    let mut i = 0;
    while i < FLEN {
        t[i] = (i as u8).wrapping_mul(11).wrapping_add(5);
        i += 1;
    }
    t
};

/// reader: answers from a script; each answer is n>0 bytes (short read),
/// Pending, EOF (0 bytes) or an error
struct MockReader {
    pos: usize,
    script: [u8; 3], // 0 = EOF, 1..=4 = that many bytes, 5 = Pending, 6 = Err
    k: usize,
    calls: usize,
}
impl AsyncRead for MockReader {
    fn poll_read(mut self: Pin<&mut Self>, _cx: &mut Context<'_>, buf: &mut ReadBuf<'_>) -> Poll<io::Result<()>> {
        let me = &mut *self;
        me.calls += 1;
        let a = if me.k < 3 { me.script[me.k] } else { 5 };
        me.k += 1;
        match a {
            0 => Poll::Ready(Ok(())),
            5 => Poll::Pending,
            6 => Poll::Ready(Err(io::ErrorKind::Other.into())),
            n => {
                let mut n = n as usize;
                if n > FLEN - me.pos {
                    n = FLEN - me.pos;
                }
                if n > buf.remaining() {
                    n = buf.remaining();
                }
                buf.put_slice(&FILE[me.pos..me.pos + n]);
                me.pos += n;
                Poll::Ready(Ok(()))
            }
        }
    }
}

/// chunker: any behaviour the `Chunker` contract allows -- split a non-empty
/// prefix of the buffer off, or ask for more data
struct MockChunker {
    script: [u8; 3], // 0 = None, n = split n bytes (clamped to 1..=len)
    k: usize,
}
impl Chunker for MockChunker {
    fn next(&mut self, buf: &mut BytesMut) -> Option<Chunk> {
        let a = if self.k < 3 { self.script[self.k] } else { 0 };
        self.k += 1;
        if a == 0 || buf.is_empty() {
            return None;
        }
        let mut n = a as usize;
        if n > buf.len() {
            n = buf.len();
        }
        Some(Chunk(buf.split_to(n).freeze()))
    }
}

fn any_state(blen_max: usize, cap: usize, reads: usize) -> (StreamingChunker<MockChunker, MockReader>, u64, usize) {
    let chunk_start: u64 = kani::any();
    let blen: usize = kani::any();
    kani::assume(chunk_start <= 8 && blen <= blen_max);
    let rs: [u8; 3] = kani::any();
    kani::assume(rs[0] <= 6 && rs[1] <= 6 && rs[2] <= 6);
    kani::assume(reads >= 3 || rs[2] == 5);
    kani::assume(reads >= 2 || rs[1] == 5);
    let cs: [u8; 3] = kani::any();
    kani::assume(cs[0] <= 6 && cs[1] <= 6 && cs[2] <= 6);
    let reader = MockReader { pos: chunk_start as usize + blen, script: rs, k: 0, calls: 0 };
    let mut s = StreamingChunker::new(MockChunker { script: cs, k: 0 }, reader);
    s.chunk_start = chunk_start;
    s.buf = BytesMut::with_capacity(cap);
    s.buf.extend_from_slice(&FILE[chunk_start as usize..chunk_start as usize + blen]);
    (s, chunk_start, blen)
}

fn inv_t(s: &StreamingChunker<MockChunker, MockReader>) -> bool {
    let cs = s.chunk_start as usize;
    cs + s.buf.len() == s.reader.pos && s.buf.len() <= 8 && bytes_match(&s.buf[..], &FILE[..], cs)
}

#[kani::proof]
#[kani::unwind(3)]
fn c09_streaming_step_noreserve() {
    // buffer already has room for a refill: the reserve() branch is not taken
    streaming_step(4, 4 + REFILL_SIZE, 1);
}
#[kani::proof]
#[kani::unwind(3)]
fn c09_streaming_step_reserve() {
    // small buffer: the reserve(REFILL_SIZE) branch is taken before reading
    streaming_step(3, 4, 1);
}
#[kani::proof]
#[kani::unwind(3)]
fn c09_streaming_step_two_reads() {
    streaming_step(3, 12 + REFILL_SIZE, 2);
}
fn streaming_step(blen_max: usize, cap: usize, reads: usize) {
    let (mut s, cs0, blen0) = any_state(blen_max, cap, reads);
    let mut cx = noop_cx();
    let r = Pin::new(&mut s).poll_next(&mut cx);
    match r {
        Poll::Ready(Some(Ok((off, chunk)))) => {
            // the item starts where the previous one ended ...
            assert!(off == cs0);
            // ... and is exactly the source bytes at that offset
            let n = chunk.len();
            assert!(n >= 1 && n <= 8);
            assert!(bytes_match(chunk.data(), &FILE[..], cs0 as usize));
            let eof_tail = s.reader.k > 0 && s.reader.script[s.reader.k - 1] == 0 && s.buf.is_empty() && s.chunk_start == cs0;
            if eof_tail {
                // tail at end of stream: everything that was buffered, once
                assert!(cs0 as usize + n == s.reader.pos);
                kani::cover!(n > blen0); // tail includes bytes read in this very poll
            } else {
                assert!(s.chunk_start == cs0 + n as u64);
                assert!(inv_t(&s));
                kani::cover!(n > blen0); // chunk spans a refill
                kani::cover!(s.reader.calls == 0); // chunk found without reading
            }
            std::mem::forget(chunk);
        }
        Poll::Ready(Some(Err(e))) => {
            // only a reader error ends up here, and it is the last thing the reader said
            assert!(s.reader.k > 0 && s.reader.script[s.reader.k - 1] == 6);
            std::mem::forget(e);
        }
        Poll::Ready(None) => {
            // end of stream only when the reader said EOF and nothing is buffered
            assert!(s.reader.k > 0 && s.reader.script[s.reader.k - 1] == 0);
            assert!(s.buf.is_empty());
            assert!(s.chunk_start as usize == s.reader.pos);
            kani::cover!(blen0 == 0);
        }
        Poll::Pending => {
            assert!(s.reader.k > 0 && s.reader.script[s.reader.k - 1] == 5);
            assert!(s.chunk_start == cs0);
            assert!(inv_t(&s));
            kani::cover!(s.buf.len() > blen0); // progress made before the Pending is kept
        }
    }
    std::mem::forget(s);
}
