//! `HashSum` comparisons (C04: the pinned header checksum; C02/C06: keys).
#![allow(dead_code, unused_imports)]
use super::*;
use crate::verif_cli_extract::{cli_header_check_refuses, ArchiveView};

fn any_hashsum(len_max: usize) -> HashSum {
    let sum: [u8; HashSum::MAX_LEN] = kani::any();
    let length: usize = kani::any();
    kani::assume(length <= len_max);
    HashSum { sum, length }
}
fn same_bytes(a: &HashSum, b: &HashSum) -> bool {
    // exact equality: same length and same bytes (written without slices compare loops over symbolic lengths)
    if a.length != b.length {
        return false;
    }
    let mut ok = true;
    let mut i = 0;
    while i < HashSum::MAX_LEN {
        if i < a.length {
            ok &= a.sum[i] == b.sum[i];
        }
        i += 1;
    }
    ok
}

/// C04: "when an expected header checksum is supplied the clone proceeds only
/// if the archive's header checksum equals it".  The condition is the one in
/// src/clone_cmd.rs, extracted verbatim by the mirror generator on every run.
/// `restrict`: 0 = every expected value; 1 = only full-length (64-byte)
/// expected values; 2 = only shorter ones (role of finding F9).
fn pinned_header(restrict: u8) {
    let expected = any_hashsum(64);
    let actual = {
        // an archive's header checksum is always the full 64 bytes (Archive::try_init)
        let sum: [u8; HashSum::MAX_LEN] = kani::any();
        HashSum { sum, length: 64 }
    };
    match restrict {
        1 => kani::assume(expected.length == 64),
        2 => kani::assume(expected.length < 64),
        _ => {}
    }
    let refuses = cli_header_check_refuses(&expected, &ArchiveView { header_checksum: &actual });
    let equal = same_bytes(&expected, &actual);
    // proceeds only if equal
    assert!(refuses || equal, "clone proceeds although the supplied header checksum differs from the archive's");
    // and an equal checksum is accepted
    assert!(!(refuses && equal));
    kani::cover!(restrict == 2 || !refuses);
    // refused although the first bytes agree
    kani::cover!(refuses && expected.length > 1 && expected.sum[0] == actual.sum[0] && expected.sum[1] == actual.sum[1]);
}
#[kani::proof]
#[kani::unwind(66)]
fn c04_pinned_header_full_length() {
    pinned_header(1);
}
#[kani::proof]
#[kani::unwind(66)]
fn c04_pinned_header_short_value() {
    pinned_header(2);
}

/// Prefix semantics of `HashSum == HashSum`, as relied upon by chunk
/// verification (expected hash of length L vs. full digest).
#[kani::proof]
#[kani::unwind(66)]
fn c04_hashsum_eq_is_prefix_compare() {
    let a = any_hashsum(64);
    let b = any_hashsum(64);
    let m = if a.length < b.length { a.length } else { b.length };
    let mut pre = true;
    let mut i = 0;
    while i < HashSum::MAX_LEN {
        if i < m {
            pre &= a.sum[i] == b.sum[i];
        }
        i += 1;
    }
    assert!((a == b) == pre);
    kani::cover!(a == b && m == 8);
    kani::cover!(a != b && m == 64);
}

/// truncate / from / slice / len
#[kani::proof]
#[kani::unwind(66)]
fn c04_hashsum_truncate_from() {
    let v: [u8; 64] = kani::any();
    let n: usize = kani::any();
    kani::assume(n <= 64);
    let mut h = HashSum::from(&v[..]);
    assert!(h.len() == 64);
    h.truncate(n);
    assert!(h.len() == n);
    let t: usize = kani::any();
    h.truncate(t);
    assert!(h.len() == if t < n { t } else { n });
    let s = h.slice();
    let mut i = 0;
    while i < 64 {
        if i < s.len() {
            assert!(s[i] == v[i]);
        }
        i += 1;
    }
    kani::cover!(t < n);
}
