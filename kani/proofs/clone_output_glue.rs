//! `CloneOutput::feed`'s hit path, compositionally (C13, C02, C05).
//!
//! `feed` over the real write loop does not get through CBMC (nested coroutines: see proofs/clone_output.rs).  This
//! module is compiled into `clone_output_glue.rs`, a second copy of `clone_output.rs` that the mirror generator
//! writes on every run and that is textually identical to the repository's file except that the BODY of
//! `write_offset` is a call of `scripted_write_offset` below -- the write loop is environment here; what it really
//! does with its arguments is decided by c13_write_offset_step / c05_write_offset_fault_step on the real module.
//! `feed` in this copy is the repository's text.  Decided here, on the real index lookup (model map): the write loop
//! is entered exactly once iff the fed chunk's truncated hash is in the index, with exactly the entry's offsets (all,
//! in order) and the fed chunk itself; its result -- byte count or error -- is handed on unchanged; afterwards the
//! entry is gone and stays gone (a duplicate of the chunk writes nothing), every other entry is untouched.
#![allow(dead_code, unused_imports, static_mut_refs)]
use super::*;
use crate::verif_support::noop_cx;
use bytes::Bytes;
use std::future::Future;
use std::pin::Pin;
use std::task::{Context, Poll};

static SRC: [u8; 4] = [0xA1, 0xB2, 0xC3, 0xD4];
/// output that must never be touched (the write loop is scripted)
struct NoOut;
impl AsyncWrite for NoOut {
    fn poll_write(self: Pin<&mut Self>, _cx: &mut Context<'_>, _buf: &[u8]) -> Poll<io::Result<usize>> {
        panic!("feed wrote to the output outside write_offset")
    }
    fn poll_flush(self: Pin<&mut Self>, _cx: &mut Context<'_>) -> Poll<io::Result<()>> {
        Poll::Ready(Ok(()))
    }
    fn poll_shutdown(self: Pin<&mut Self>, _cx: &mut Context<'_>) -> Poll<io::Result<()>> {
        Poll::Ready(Ok(()))
    }
}
impl AsyncSeek for NoOut {
    fn start_seek(self: Pin<&mut Self>, _position: SeekFrom) -> io::Result<()> {
        panic!("feed moved the output cursor outside write_offset")
    }
    fn poll_complete(self: Pin<&mut Self>, _cx: &mut Context<'_>) -> Poll<io::Result<u64>> {
        Poll::Ready(Ok(0))
    }
}
fn run_feed(co: &mut CloneOutput<NoOut>, v: &VerifiedChunk) -> io::Result<usize> {
    let mut cx = noop_cx();
    let fut = co.feed(v);
    tokio::pin!(fut);
    match fut.as_mut().poll(&mut cx) {
        Poll::Ready(r) => r,
        Poll::Pending => panic!("feed pending on a ready output"),
    }
}
/// 1 = answer Ok(WO_RET); 2 = answer Err; 3 = write into the mock file (executor scenarios below)
pub(crate) static mut WO_MODE: u8 = 0;
pub(crate) static mut WO_RET: usize = 0;
pub(crate) static mut WO_CALLS: usize = 0;
pub(crate) static mut WO_N: usize = 0;
pub(crate) static mut WO_OFFS: [u64; 2] = [0; 2];
pub(crate) static mut WO_CHUNK: usize = 0;
pub(crate) fn scripted_write_offset(offsets: &[u64], verified: &VerifiedChunk) -> io::Result<usize> {
    let mode = unsafe { WO_MODE };
    unsafe {
        WO_CALLS += 1;
        WO_N = offsets.len();
        WO_OFFS[0] = if offsets.len() > 0 { offsets[0] } else { 0 };
        WO_OFFS[1] = if offsets.len() > 1 { offsets[1] } else { 0 };
        WO_CHUNK = verified as *const VerifiedChunk as usize;
    }
    if mode == 3 {
        // executor scenarios (c03_exec_*): the bytes land in the mock file
        return file_write(offsets, verified.data());
    }
    if mode == 1 {
        Ok(unsafe { WO_RET })
    } else {
        Err(io::ErrorKind::Other.into())
    }
}
fn feed_glue(n_offsets: usize, hl: usize, fail: bool) {
    let key: [u8; 4] = kani::any();
    let hash: [u8; 8] = kani::any();
    let offs: [u64; 2] = kani::any();
    let size: usize = kani::any();
    let ret: usize = kani::any();
    let mut idx = ChunkIndex::new_empty(hl);
    if n_offsets == 2 {
        crate::chunk_index::kani_proofs::add_entry2(&mut idx, &key[..], size, offs[0], offs[1]);
    } else {
        crate::chunk_index::kani_proofs::add_entry(&mut idx, &key[..], size, offs[0]);
    }
    // an unrelated entry (its truncated key differs from both)
    let key2: [u8; 4] = kani::any();
    kani::assume(key2[0] != key[0] && key2[0] != hash[0]);
    crate::chunk_index::kani_proofs::add_entry(&mut idx, &key2[..], 2, 77);
    let other = HashSum::from(&key2[..]);
    let v = VerifiedChunk { chunk: Chunk(Bytes::from_static(&SRC[..3])), hash_sum: HashSum::from(&hash[..]) };
    let hit = hash[0] == key[0] && (hl < 2 || hash[1] == key[1]);
    let mut co = CloneOutput::new(NoOut, idx);
    unsafe {
        WO_MODE = if fail { 2 } else { 1 };
        WO_RET = ret;
        // from here on add_chunk calls are counted, not executed: feed must never add to the clone index
        crate::chunk_index::kani_proofs::ADD_SCRIPTED = true;
    }
    let r = run_feed(&mut co, &v);
    let calls = unsafe { WO_CALLS };
    if hit {
        assert!(calls == 1, "the write loop is entered exactly once for a chunk that is in the index");
        assert!(unsafe { WO_N } == n_offsets, "all of the entry's offsets are handed to the write loop");
        assert!(unsafe { WO_OFFS[0] } == offs[0]);
        assert!(n_offsets < 2 || unsafe { WO_OFFS[1] } == offs[1]);
        assert!(unsafe { WO_CHUNK } == &v as *const VerifiedChunk as usize, "the fed chunk itself is written");
        match r {
            Ok(n) => assert!(!fail && n == ret, "the write loop's byte count is handed on"),
            Err(e) => {
                assert!(fail, "feed fails only when the write loop failed");
                std::mem::forget(e);
            }
        }
        // the entry is gone -- no later feed of the same chunk can write its locations again
        assert!(co.len() == 1);
        assert!(!co.chunks().contains(v.hash()));
        kani::cover!(hl == 1 || hash[1] == key[1]);
    } else {
        assert!(calls == 0, "nothing is written for a chunk that is not in the index");
        assert!(matches!(r, Ok(0)));
        assert!(co.len() == 2);
        kani::cover!(hl == 1 || hash[0] == key[0]); // differs only beyond the first byte
        std::mem::forget(r);
    }
    assert!(co.chunks().contains(&other), "unrelated entries stay");
    assert!(unsafe { crate::chunk_index::kani_proofs::ADD_CALLS } == 0, "feed never puts an entry (back) into the clone index");
    // a second feed of the same chunk: nothing is written again
    unsafe {
        WO_MODE = 1;
    }
    let r2 = run_feed(&mut co, &v);
    assert!(unsafe { WO_CALLS } == calls, "a location is written at most once: the duplicate writes nothing");
    assert!(matches!(r2, Ok(0)) || !hit);
    assert!(unsafe { crate::chunk_index::kani_proofs::ADD_CALLS } == 0);
    std::mem::forget(r2);
    std::mem::forget(co);
    std::mem::forget(v);
    std::mem::forget(other);
}
macro_rules! feed_glue {
    ($name:ident, $n:expr, $hl:expr, $fail:expr) => {
        #[kani::proof]
        #[kani::unwind(8)]
        fn $name() {
            feed_glue($n, $hl, $fail);
        }
    };
}
feed_glue!(c13_feed_glue_o1_h1, 1, 1, false);
feed_glue!(c13_feed_glue_o2_h1, 2, 1, false);
feed_glue!(c13_feed_glue_o2_h2, 2, 2, false);
feed_glue!(c13_feed_glue_o1_h2_fail, 1, 2, true);
feed_glue!(c13_feed_glue_o2_h1_fail, 2, 1, true);


// ===========================================================================
// C03 / C05 -- the in-place reorder EXECUTOR (`CloneOutput::reorder_in_place`) as scenario runs.
//
// The planner (strip_chunks_already_in_place, reorder_ops) is environment here (scripted through the prologues in
// chunk_index.rs): each scenario hands the executor a plan that is valid for a concrete layout -- the plans are the
// ones the real planner produces for these layouts (derived by hand from its DFS; ops are data, not code).  The write
// loop is the scripted one of this module copy, here in mode 3: it WRITES the chunk's bytes into the file at every
// offset it is given.  Reads (seek + read_exact) go through tokio's real futures on a mock file.  Layout and plan
// are concrete, EVERY BYTE of the prior file content is symbolic; decided for all contents: after a run that
// reports success every moved chunk's ORIGINAL bytes are at all of its destinations, bytes outside the destinations
// are untouched, each moved chunk has left the clone index, the moved-byte count is right; a failing read or write
// makes the run fail.
// ===========================================================================
const FLEN: usize = 12;
static mut FILE: [u8; FLEN] = [0; FLEN];
static mut WRITES: usize = 0;
/// write loop in mode 3: the k-th call (k == WO_FAIL_AT) fails, every other call stores the bytes at each offset
pub(crate) static mut WO_FAIL_AT: usize = usize::MAX;
fn file_write(offsets: &[u64], data: &[u8]) -> io::Result<usize> {
    unsafe {
        if WRITES == WO_FAIL_AT {
            WRITES += 1;
            return Err(io::ErrorKind::Other.into());
        }
        WRITES += 1;
    }
    let n = data.len();
    assert!(n <= 4 && offsets.len() <= 2, "mock bound");
    let mut k = 0;
    while k < offsets.len() {
        let o = offsets[k] as usize;
        assert!(o + n <= FLEN, "write beyond the file");
        unsafe {
            if n > 0 {
                FILE[o] = data[0];
            }
            if n > 1 {
                FILE[o + 1] = data[1];
            }
            if n > 2 {
                FILE[o + 2] = data[2];
            }
            if n > 3 {
                FILE[o + 3] = data[3];
            }
        }
        k += 1;
    }
    Ok(n * offsets.len())
}
/// readable + seekable view of FILE; reads may be short (1 byte at a time when F_DRIBBLE), the k-th read can fail.
/// All of its state lives in plain statics: the reader object itself sits inside reorder_in_place's coroutine, and
/// CBMC does not constant-propagate through fields stored there (positions would become symbolic array indices).
struct FileIo;
static mut F_POS: u64 = 0;
static mut F_READS: usize = 0;
static mut F_FAIL_READ_AT: usize = usize::MAX;
static mut F_DRIBBLE: bool = false;
impl AsyncRead for FileIo {
    fn poll_read(self: Pin<&mut Self>, _cx: &mut Context<'_>, buf: &mut tokio::io::ReadBuf<'_>) -> Poll<io::Result<()>> {
        unsafe {
            if F_READS == F_FAIL_READ_AT {
                F_READS += 1;
                return Poll::Ready(Err(io::ErrorKind::Other.into()));
            }
            F_READS += 1;
            let p = F_POS as usize;
            let mut n = buf.remaining();
            if p + n > FLEN {
                n = FLEN - p; // short read at the end of the file (0 = EOF)
            }
            if F_DRIBBLE && n > 1 {
                n = 1;
            }
            buf.put_slice(&FILE[p..p + n]);
            F_POS += n as u64;
        }
        Poll::Ready(Ok(()))
    }
}
impl AsyncWrite for FileIo {
    fn poll_write(self: Pin<&mut Self>, _cx: &mut Context<'_>, _buf: &[u8]) -> Poll<io::Result<usize>> {
        panic!("the executor wrote to the output outside write_offset")
    }
    fn poll_flush(self: Pin<&mut Self>, _cx: &mut Context<'_>) -> Poll<io::Result<()>> {
        Poll::Ready(Ok(()))
    }
    fn poll_shutdown(self: Pin<&mut Self>, _cx: &mut Context<'_>) -> Poll<io::Result<()>> {
        Poll::Ready(Ok(()))
    }
}
impl AsyncSeek for FileIo {
    fn start_seek(self: Pin<&mut Self>, position: SeekFrom) -> io::Result<()> {
        match position {
            SeekFrom::Start(p) => {
                unsafe {
                    F_POS = p;
                }
                Ok(())
            }
            _ => panic!("only absolute seeks expected"),
        }
    }
    fn poll_complete(self: Pin<&mut Self>, _cx: &mut Context<'_>) -> Poll<io::Result<u64>> {
        Poll::Ready(Ok(unsafe { F_POS }))
    }
}
fn leak(h: &[u8]) -> &'static HashSum {
    Box::leak(Box::new(HashSum::from(h)))
}
fn dests1(a: u64) -> Vec<u64> {
    let mut v = Vec::with_capacity(2);
    v.push(a);
    v
}
fn dests2(a: u64, b: u64) -> Vec<u64> {
    let mut v = Vec::with_capacity(2);
    v.push(a);
    v.push(b);
    v
}
struct ExecRun {
    init: [u8; FLEN],
    result: io::Result<u64>,
    co: CloneOutput<FileIo>,
    strip_size: u64,
}
/// runs the real reorder_in_place over `plan`; clone index = the given (hash, size, offset) entries
fn exec(plan: Vec<ReorderOp<'static>>, entries: &[(&'static HashSum, usize, u64)], dribble: bool, faults: bool) -> ExecRun {
    let init: [u8; FLEN] = kani::any();
    let strip_n: usize = kani::any();
    let strip_size: u64 = kani::any();
    kani::assume(strip_size < 1 << 32);
    let mut idx = ChunkIndex::new_empty(2);
    let mut i = 0;
    while i < entries.len() {
        crate::chunk_index::kani_proofs::add_entry(&mut idx, entries[i].0.slice(), entries[i].1, entries[i].2);
        i += 1;
    }
    unsafe {
        F_POS = 0;
        F_READS = 0;
        F_FAIL_READ_AT = usize::MAX;
        F_DRIBBLE = dribble;
        FILE = init;
        WRITES = 0;
        WO_MODE = 3;
        WO_FAIL_AT = usize::MAX;
        if faults {
            WO_FAIL_AT = kani::any();
            F_FAIL_READ_AT = kani::any();
        }
        crate::chunk_index::kani_proofs::PLANNER_SCRIPTED = true;
        crate::chunk_index::kani_proofs::STRIP_RET = (strip_n, strip_size);
        crate::chunk_index::kani_proofs::PLAN = Some(plan);
    }
    let mut co = CloneOutput::new(FileIo, idx);
    let result = {
        let mut cx = noop_cx();
        let fut = co.reorder_in_place(ChunkIndex::new_empty(2));
        tokio::pin!(fut);
        match fut.as_mut().poll(&mut cx) {
            Poll::Ready(r) => r,
            Poll::Pending => panic!("reorder_in_place pending on a ready file"),
        }
    };
    ExecRun { init, result, co, strip_size }
}
/// final[at .. at+n] == init[from .. from+n]
fn moved(init: &[u8; FLEN], at: usize, from: usize, n: usize) -> bool {
    let f = unsafe { &FILE };
    (n < 1 || f[at] == init[from]) && (n < 2 || f[at + 1] == init[from + 1]) && (n < 3 || f[at + 2] == init[from + 2]) && (n < 4 || f[at + 3] == init[from + 3])
}

/// cyclic move with TWO chunks landing inside the pending chunk's old location:
/// X(4)@0 B(2)@4 C(2)@6  ->  B@0 C@2 X@4.  The planner's ops: StoreInMem X, Copy B, StoreInMem X (again), Copy C, Copy X.
fn exec_cycle_double_store(dribble: bool, faults: bool) {
    let (x, b, c) = (leak(&[1, 1]), leak(&[2, 2]), leak(&[3, 3]));
    let mut plan = Vec::with_capacity(5);
    plan.push(ReorderOp::StoreInMem { hash: x, size: 4, source: 0 });
    plan.push(ReorderOp::Copy { hash: b, size: 2, source: 4, dest: dests1(0) });
    plan.push(ReorderOp::StoreInMem { hash: x, size: 4, source: 0 });
    plan.push(ReorderOp::Copy { hash: c, size: 2, source: 6, dest: dests1(2) });
    plan.push(ReorderOp::Copy { hash: x, size: 4, source: 0, dest: dests1(4) });
    let run = exec(plan, &[(x, 4, 4), (b, 2, 0), (c, 2, 2)], dribble, faults);
    match run.result {
        Ok(total) => {
            assert!(unsafe { WO_FAIL_AT } >= 3 && unsafe { F_FAIL_READ_AT >= F_READS }, "a failed read or write must fail the run");
            assert!(moved(&run.init, 0, 4, 2), "B's original bytes at its destination");
            assert!(moved(&run.init, 2, 6, 2), "C's original bytes at its destination");
            assert!(moved(&run.init, 4, 0, 4), "X's original bytes (buffered before B overwrote them) at its destination");
            assert!(moved(&run.init, 8, 8, 4), "bytes outside the destinations untouched");
            assert!(total == 8 + run.strip_size);
            assert!(run.co.is_empty(), "moved chunks leave the clone index");
            assert!(unsafe { WRITES } == 3);
            kani::cover!(true);
        }
        Err(e) => {
            assert!(faults, "no fault was injected");
            kani::cover!(unsafe { WRITES } > 0); // failed after part of the plan was executed
            std::mem::forget(e);
        }
    }
    std::mem::forget(run.co);
}
/// swap of two chunks of different size: A(2)@0 B(3)@2 -> B@0 A@3.  Ops: StoreInMem A, Copy B, Copy A (from memory).
fn exec_swap(dribble: bool, faults: bool) {
    let (a, b) = (leak(&[1, 1]), leak(&[2, 2]));
    let mut plan = Vec::with_capacity(3);
    plan.push(ReorderOp::StoreInMem { hash: a, size: 2, source: 0 });
    plan.push(ReorderOp::Copy { hash: b, size: 3, source: 2, dest: dests1(0) });
    plan.push(ReorderOp::Copy { hash: a, size: 2, source: 0, dest: dests1(3) });
    let run = exec(plan, &[(a, 2, 3), (b, 3, 0), (leak(&[9, 9]), 2, 7)], dribble, faults);
    match run.result {
        Ok(total) => {
            assert!(unsafe { WO_FAIL_AT } >= 2 && unsafe { F_FAIL_READ_AT >= F_READS }, "a failed read or write must fail the run");
            assert!(moved(&run.init, 0, 2, 3), "B's original bytes at its destination");
            assert!(moved(&run.init, 3, 0, 2), "A's original bytes at its destination");
            assert!(moved(&run.init, 5, 5, 4) && moved(&run.init, 9, 9, 3), "bytes outside the destinations untouched");
            assert!(total == 5 + run.strip_size);
            assert!(run.co.len() == 1, "moved chunks leave the clone index, the chunk still to be fetched stays");
            kani::cover!(true);
        }
        Err(e) => {
            assert!(faults, "no fault was injected");
            std::mem::forget(e);
        }
    }
    std::mem::forget(run.co);
}
/// a chunk moved onto itself with overlap (A(3)@2 -> @0) and a chunk copied to two destinations (D(2)@6 -> @8 and @10)
fn exec_shift_and_dup(dribble: bool, faults: bool) {
    let (a, d) = (leak(&[1, 1]), leak(&[2, 2]));
    let mut plan = Vec::with_capacity(2);
    plan.push(ReorderOp::Copy { hash: a, size: 3, source: 2, dest: dests1(0) });
    plan.push(ReorderOp::Copy { hash: d, size: 2, source: 6, dest: dests2(8, 10) });
    let run = exec(plan, &[(a, 3, 0), (d, 2, 8)], dribble, faults);
    match run.result {
        Ok(total) => {
            assert!(unsafe { WO_FAIL_AT } >= 2 && unsafe { F_FAIL_READ_AT >= F_READS }, "a failed read or write must fail the run");
            assert!(moved(&run.init, 0, 2, 3), "A's original bytes at its destination (source and destination overlap)");
            assert!(moved(&run.init, 8, 6, 2) && moved(&run.init, 10, 6, 2), "D at both of its destinations");
            assert!(moved(&run.init, 3, 3, 4) && moved(&run.init, 7, 7, 1), "bytes outside the destinations untouched");
            assert!(total == 5 + run.strip_size);
            assert!(run.co.is_empty());
            kani::cover!(true);
        }
        Err(e) => {
            assert!(faults, "no fault was injected");
            std::mem::forget(e);
        }
    }
    std::mem::forget(run.co);
}
macro_rules! exec_run {
    ($name:ident, $f:ident, $dribble:expr, $faults:expr, $unwind:expr) => {
        #[kani::proof]
        #[kani::unwind($unwind)]
        fn $name() {
            $f($dribble, $faults);
        }
    };
}
// unwind: the model map's 4-slot drop glue needs 5; the executor's loop over the plan needs ops + 1; every other loop
// (read_exact: 2 rounds, key hashing/compare: 2 bytes, write script: <= 2 offsets) needs <= 3.  The bound multiplies
// through nested loops whose exit CBMC cannot decide by constant propagation (values that live in the coroutine),
// so it is kept as small as the scenario allows.
exec_run!(c03_exec_cycle_double_store, exec_cycle_double_store, false, false, 6);
exec_run!(c03_exec_cycle_double_store_faults, exec_cycle_double_store, false, true, 6);
exec_run!(c03_exec_swap, exec_swap, false, false, 5);
exec_run!(c03_exec_swap_dribble, exec_swap, true, false, 5);
exec_run!(c03_exec_swap_faults, exec_swap, false, true, 5);
exec_run!(c03_exec_shift_and_dup, exec_shift_and_dup, false, false, 5);
exec_run!(c03_exec_shift_and_dup_faults, exec_shift_and_dup, false, true, 5);
/// smallest executor scenario: one chunk A(2)@3 -> @0
fn exec_min(faults: bool) {
    let a = leak(&[1, 1]);
    let mut plan = Vec::with_capacity(1);
    plan.push(ReorderOp::Copy { hash: a, size: 2, source: 3, dest: dests1(0) });
    let run = exec(plan, &[(a, 2, 0)], false, faults);
    let mut failed = false;
    match run.result {
        Ok(total) => {
            assert!(unsafe { WO_FAIL_AT } >= 1 && unsafe { F_FAIL_READ_AT >= F_READS }, "a failed read or write must fail the run");
            assert!(moved(&run.init, 0, 3, 2), "A's original bytes at its destination");
            assert!(moved(&run.init, 2, 2, 4) && moved(&run.init, 6, 6, 4), "bytes outside the destination untouched");
            assert!(total == 2 + run.strip_size);
            assert!(run.co.is_empty());
            kani::cover!(true);
        }
        Err(e) => {
            assert!(faults, "no fault was injected");
            failed = true;
            std::mem::forget(e);
        }
    }
    // (covers sit outside the match: in the fault-free instance the Err arm is unreachable)
    kani::cover!(!faults || (failed && unsafe { WRITES } == 1)); // the write failed
    kani::cover!(!faults || (failed && unsafe { WRITES } == 0)); // the read failed
    std::mem::forget(run.co);
}
#[kani::proof]
#[kani::unwind(5)]
fn c03_exec_min() {
    exec_min(false);
}
#[kani::proof]
#[kani::unwind(5)]
fn c03_exec_min_faults() {
    exec_min(true);
}
/// buffer then write from the buffer: StoreInMem A(2)@0, Copy A -> @4 (served from memory, no second read)
#[kani::proof]
#[kani::unwind(5)]
fn c03_exec_store_then_copy() {
    let a = leak(&[1, 1]);
    let mut plan = Vec::with_capacity(2);
    plan.push(ReorderOp::StoreInMem { hash: a, size: 2, source: 0 });
    plan.push(ReorderOp::Copy { hash: a, size: 2, source: 0, dest: dests1(4) });
    let run = exec(plan, &[(a, 2, 4)], false, false);
    match run.result {
        Ok(total) => {
            assert!(moved(&run.init, 4, 0, 2), "A's buffered bytes at its destination");
            assert!(moved(&run.init, 0, 0, 4) && moved(&run.init, 6, 6, 4), "bytes outside the destination untouched");
            assert!(unsafe { F_READS } == 1, "a buffered chunk is not read again");
            assert!(total == 2 + run.strip_size);
            assert!(run.co.is_empty());
            kani::cover!(true);
        }
        Err(e) => {
            assert!(false, "no fault was injected");
            std::mem::forget(e);
        }
    }
    std::mem::forget(run.co);
}
/// one chunk copied to two destinations: D(2)@6 -> @8 and @10
#[kani::proof]
#[kani::unwind(5)]
fn c03_exec_two_dests() {
    let d = leak(&[2, 2]);
    let mut plan = Vec::with_capacity(1);
    plan.push(ReorderOp::Copy { hash: d, size: 2, source: 6, dest: dests2(8, 10) });
    let run = exec(plan, &[(d, 2, 8), (leak(&[9, 9]), 3, 0)], false, false);
    match run.result {
        Ok(total) => {
            assert!(moved(&run.init, 8, 6, 2) && moved(&run.init, 10, 6, 2), "D at both of its destinations");
            assert!(moved(&run.init, 0, 0, 4) && moved(&run.init, 4, 4, 4), "bytes outside the destinations untouched");
            assert!(total == 2 + run.strip_size);
            assert!(run.co.len() == 1, "the chunk still to be fetched stays in the clone index");
            kani::cover!(true);
        }
        Err(e) => {
            assert!(false, "no fault was injected");
            std::mem::forget(e);
        }
    }
    std::mem::forget(run.co);
}
