//! One `CloneOutput::feed` from an arbitrary clone-index state (C02, C13, C05).
//! Model map instead of std HashMap; mock output records every seek/write and
//! can fail or accept only a prefix at an arbitrary point.
#![allow(dead_code, unused_imports)]
use super::*;
use crate::verif_support::{bytes_match, noop_cx};
use std::future::Future;
use bytes::Bytes;
use std::pin::Pin;
use std::task::{Context, Poll};

const MAXW: usize = 4;
/// Output: records (position, length, first byte) of every write call; the
/// k-th write call can fail (Err), or accept only `short` bytes, or report 0.
struct Out {
    pos: u64,
    n: usize,
    w_off: [u64; MAXW],
    w_len: [usize; MAXW],
    w_b0: [u8; MAXW],
    w_b1: [u8; MAXW],
    fail_write_at: usize,
    short_at: usize,
    short_len: usize,
    seeks: usize,
    fail_seek_at: usize,
    total: usize,
}
fn out() -> Out {
    Out { pos: 0, n: 0, w_off: [0; MAXW], w_len: [0; MAXW], w_b0: [0; MAXW], w_b1: [0; MAXW], fail_write_at: usize::MAX, short_at: usize::MAX, short_len: 0, seeks: 0, fail_seek_at: usize::MAX, total: 0 }
}
impl AsyncWrite for Out {
    fn poll_write(mut self: Pin<&mut Self>, _cx: &mut Context<'_>, buf: &[u8]) -> Poll<io::Result<usize>> {
        let me = &mut *self;
        if me.n == me.fail_write_at {
            return Poll::Ready(Err(io::ErrorKind::Other.into()));
        }
        assert!(me.n < MAXW, "mock bound: too many writes");
        let mut l = buf.len();
        if me.n == me.short_at && me.short_len < l {
            l = me.short_len; // torn write: only a prefix is accepted (0 = device full)
        }
        me.w_off[me.n] = me.pos;
        me.w_len[me.n] = l;
        me.w_b0[me.n] = if l > 0 { buf[0] } else { 0 };
        me.w_b1[me.n] = if l > 1 { buf[1] } else { 0 };
        me.n += 1;
        me.pos += l as u64;
        me.total += l;
        Poll::Ready(Ok(l))
    }
    fn poll_flush(self: Pin<&mut Self>, _cx: &mut Context<'_>) -> Poll<io::Result<()>> {
        Poll::Ready(Ok(()))
    }
    fn poll_shutdown(self: Pin<&mut Self>, _cx: &mut Context<'_>) -> Poll<io::Result<()>> {
        Poll::Ready(Ok(()))
    }
}
impl AsyncSeek for Out {
    fn start_seek(mut self: Pin<&mut Self>, position: SeekFrom) -> io::Result<()> {
        if self.seeks == self.fail_seek_at {
            return Err(io::ErrorKind::Other.into());
        }
        self.seeks += 1;
        match position {
            SeekFrom::Start(p) => {
                self.pos = p;
                Ok(())
            }
            _ => panic!("only absolute seeks expected"),
        }
    }
    fn poll_complete(self: Pin<&mut Self>, _cx: &mut Context<'_>) -> Poll<io::Result<u64>> {
        Poll::Ready(Ok(self.pos))
    }
}

static SRC: [u8; 4] = [0xA1, 0xB2, 0xC3, 0xD4];

struct Scenario {
    hl: usize,
    key: [u8; 4],
    hash: [u8; 8],
    size: usize,
    off: u64,
    hit: bool,
}
/// clone index with one entry (stored key `key` truncated to hl, `size`, one
/// offset) plus optionally a second, unrelated entry; a verified chunk with an
/// arbitrary 8-byte hash and `size` bytes of data
fn scenario(co_out: Out, two: bool) -> (CloneOutput<Out>, VerifiedChunk, Scenario) {
    let hl: usize = kani::any();
    // hash length <= 2: slice compares and hashing are loops over the key bytes, and the harness-wide unwind bound
    // multiplies through feed's offset loop (seek + write_all futures per iteration)
    kani::assume(hl >= 1 && hl <= 2);
    let size: usize = kani::any();
    kani::assume(size >= 1 && size <= 3);
    scenario_with(co_out, two, hl, size)
}
fn scenario_with(co_out: Out, two: bool, hl: usize, size: usize) -> (CloneOutput<Out>, VerifiedChunk, Scenario) {
    let key: [u8; 4] = kani::any();
    let hash: [u8; 8] = kani::any();
    let off: u64 = kani::any();
    kani::assume(off < 1 << 40);
    // index state injected directly (add_chunk itself: proofs/chunk_index.rs)
    let mut idx = crate::chunk_index::kani_proofs::mk_index1(hl, &key[..], size, off);
    if two {
        let key2: [u8; 4] = kani::any();
        // a different chunk: its truncated key differs from both
        kani::assume(key2[0] != key[0] && key2[0] != hash[0]);
        crate::chunk_index::kani_proofs::add_entry(&mut idx, &key2[..], 2, off + 100);
    }
    let v = VerifiedChunk { chunk: Chunk(Bytes::from_static(&SRC[..size])), hash_sum: HashSum::from(&hash[..]) };
    let hit = hash[0] == key[0] && (hl < 2 || hash[1] == key[1]);
    (CloneOutput::new(co_out, idx), v, Scenario { hl, key, hash, size, off, hit })
}
fn run_feed(co: &mut CloneOutput<Out>, v: &VerifiedChunk) -> io::Result<usize> {
    let mut cx = noop_cx();
    let fut = co.feed(v);
    tokio::pin!(fut);
    match fut.as_mut().poll(&mut cx) {
        Poll::Ready(r) => r,
        Poll::Pending => panic!("feed pending on a ready output"),
    }
}

fn run_write_offset(co: &mut CloneOutput<Out>, offsets: &[u64], v: &VerifiedChunk) -> io::Result<usize> {
    let mut cx = noop_cx();
    let fut = co.write_offset(offsets, v);
    tokio::pin!(fut);
    match fut.as_mut().poll(&mut cx) {
        Poll::Ready(r) => r,
        Poll::Pending => panic!("write_offset pending on a ready output"),
    }
}

// NOTE on decomposition.  `feed` as a whole (async fn awaiting the async fn
// write_offset over offsets that live in a heap Vec moved out of the index)
// does not get through CBMC: every variant tried -- one entry, concrete key
// length and size, scripted lookup -- ends in > 28 GB during propositional
// reduction.  What does get through, and is registered:
//   * the lookup (`ChunkIndex::remove`) on its own: proofs/chunk_index.rs
//   * `write_offset` on its own, fault-free and under every fault: below
//   * the two real functions called in feed's order on the index's own
//     ChunkLocation (c13_lookup_then_write_step), and `feed` itself on the
//     miss path of an empty index (c13_feed_miss_empty_index).
// The four lines of glue inside `feed` on the hit path are therefore read,
// not executed; this is stated in MANIFEST/evidence.

/// C13 (write step): for every list of 1..2 destination offsets and every
/// chunk of 1..3 bytes, write_offset issues, per offset and in order, one seek
/// to exactly that offset followed by the chunk's bytes -- all of them, once.
#[kani::proof]
#[kani::unwind(5)]
fn c13_write_offset_step() {
    let n: usize = kani::any();
    kani::assume(n >= 1 && n <= 2);
    let o: [u64; 2] = kani::any();
    kani::assume(o[0] < 1 << 40 && o[1] < 1 << 40);
    let size: usize = kani::any();
    kani::assume(size >= 1 && size <= 3);
    let mut co = CloneOutput::new(out(), ChunkIndex::new_empty(4));
    let v = VerifiedChunk { chunk: Chunk(Bytes::from_static(&SRC[..size])), hash_sum: HashSum::from(&[9u8; 4][..]) };
    let r = run_write_offset(&mut co, &o[..n], &v);
    match r {
        Ok(k) => {
            assert!(k == n * size);
            assert!(co.inner.n == n && co.inner.seeks == n);
            assert!(co.inner.w_off[0] == o[0] && co.inner.w_len[0] == size && co.inner.w_b0[0] == SRC[0]);
            assert!(size < 2 || co.inner.w_b1[0] == SRC[1]);
            assert!(n < 2 || (co.inner.w_off[1] == o[1] && co.inner.w_len[1] == size && co.inner.w_b0[1] == SRC[0]));
            kani::cover!(n == 2 && size == 3);
        }
        Err(e) => {
            assert!(false, "no fault was injected");
            std::mem::forget(e);
        }
    }
    std::mem::forget(co);
    std::mem::forget(v);
}

/// C05 (fault step): a seek or write that fails, or a write that is torn
/// (accepts only a prefix, possibly 0 bytes) at any point => Err, never Ok
/// with fewer bytes on the output than n * size; bytes that did land are
/// contiguous from the destination offset.
#[kani::proof]
#[kani::unwind(5)]
fn c05_write_offset_fault_step() {
    let mut ou = out();
    ou.fail_seek_at = kani::any();
    ou.fail_write_at = kani::any();
    ou.short_at = kani::any();
    ou.short_len = kani::any();
    kani::assume(ou.short_len <= 2);
    let off: u64 = kani::any();
    kani::assume(off < 1 << 40);
    let size: usize = kani::any();
    kani::assume(size >= 1 && size <= 3);
    let mut co = CloneOutput::new(ou, ChunkIndex::new_empty(4));
    let v = VerifiedChunk { chunk: Chunk(Bytes::from_static(&SRC[..size])), hash_sum: HashSum::from(&[9u8; 4][..]) };
    let offs = [off];
    let r = run_write_offset(&mut co, &offs, &v);
    match r {
        Ok(k) => {
            // success only when every byte reached the output, contiguously from the destination
            assert!(k == size && co.inner.total == size);
            assert!(co.inner.w_off[0] == off);
            assert!(co.inner.n < 2 || co.inner.w_off[1] == off + co.inner.w_len[0] as u64);
            assert!(co.inner.n < 3 || co.inner.w_off[2] == co.inner.w_off[1] + co.inner.w_len[1] as u64);
            kani::cover!(co.inner.n == 2); // torn write completed by write_all's second round
        }
        Err(e) => {
            assert!(co.inner.total < size);
            kani::cover!(co.inner.total > 0); // some bytes landed before the failure
            kani::cover!(co.inner.total == 0 && co.inner.seeks == 0); // the seek failed
            kani::cover!(e.kind() == io::ErrorKind::WriteZero); // device full
            std::mem::forget(e);
        }
    }
    std::mem::forget(co);
    std::mem::forget(v);
}

/// C02/C13 (lookup then write, the two real functions in feed's order): a
/// chunk whose truncated hash is in the index is written -- all of its bytes,
/// once, at exactly the entry's offset -- and the entry is gone, so no later
/// feed can write that location again; otherwise nothing is removed.
#[kani::proof]
#[kani::unwind(5)]
fn c13_lookup_then_write_step() {
    let (mut co, v, sc) = scenario(out(), true);
    let before = co.len();
    let loc = co.clone_index.remove(v.hash());
    match loc {
        Some(location) => {
            assert!(sc.hit);
            assert!(location.size() == sc.size && location.offsets().len() == 1 && location.offsets()[0] == sc.off);
            let r = run_write_offset(&mut co, location.offsets(), &v);
            match r {
                Ok(n) => {
                    assert!(n == sc.size && co.inner.n == 1 && co.inner.seeks == 1);
                    assert!(co.inner.w_off[0] == sc.off && co.inner.w_len[0] == sc.size && co.inner.w_b0[0] == SRC[0]);
                }
                Err(e) => {
                    assert!(false);
                    std::mem::forget(e);
                }
            }
            assert!(co.len() == before - 1 && !co.chunks().contains(v.hash()));
            kani::cover!(sc.hl == 2 && sc.size == 3);
            std::mem::forget(location);
        }
        None => {
            assert!(!sc.hit);
            assert!(co.len() == before);
            kani::cover!(sc.hash[0] == sc.key[0] && sc.hl > 1); // differs only beyond the first byte
        }
    }
    std::mem::forget(co);
    std::mem::forget(v);
}

/// `feed` itself, miss path: nothing is written when the index has no entry.
#[kani::proof]
#[kani::unwind(8)]
fn c13_feed_miss_empty_index() {
    let hl: usize = kani::any();
    kani::assume(hl <= 4);
    let mut co = CloneOutput::new(out(), ChunkIndex::new_empty(hl));
    let hash: [u8; 8] = kani::any();
    let v = VerifiedChunk { chunk: Chunk(Bytes::from_static(&SRC[..3])), hash_sum: HashSum::from(&hash[..]) };
    let r = run_feed(&mut co, &v);
    match r {
        Ok(n) => assert!(n == 0 && co.inner.n == 0 && co.inner.seeks == 0 && co.is_empty()),
        Err(e) => {
            assert!(false);
            std::mem::forget(e);
        }
    }
    kani::cover!(true);
    std::mem::forget(co);
    std::mem::forget(v);
}

// `feed`'s hit path: see proofs/clone_output_glue.rs (feed over a scripted write loop, in a second copy of this
// module).  Also tried and dropped: feed over the REAL write loop with the index lookup scripted
// (c13_feed_hit_write_*: 7k VCCs, no verdict in 600 s) -- nested coroutines keep all their suspend states and CBMC
// explores every resume point.

// ===========================================================================
// NOT REGISTERED (record of an attempt): neither of the two scenario harnesses below finishes -- even one feed with
// every hash, size and offset concrete runs out of memory (5.5k VCCs after 125 s of symex, then > 14 GB).  `feed`'s
// hit path stays decomposed (see the note further up); a seeded change inside `feed` itself (seeded/R3a) is missed.
// `feed` on its HIT path, as scenario runs.  With symbolic hashes `feed`'s hit path does not get through the solver
// (see the note above); with the hashes, sizes and the number of offsets concrete -- i.e. which feed hits which
// entry is concrete control flow -- whole sequences of feeds finish, while the chunk DATA and the destination
// OFFSETS stay symbolic.  Decided for all data and offsets: every write is the fed chunk's bytes at one of its
// entry's offsets, each location once; the entry is gone afterwards, so a duplicate of the chunk arriving later
// (second seed, archive) writes nothing; unrelated entries stay.
// ===========================================================================
struct Out2 {
    pos: u64,
    n: usize,
    w_off: [u64; 6],
    w_len: [usize; 6],
    w_b0: [u8; 6],
    w_last: [u8; 6],
}
impl AsyncWrite for Out2 {
    fn poll_write(mut self: Pin<&mut Self>, _cx: &mut Context<'_>, buf: &[u8]) -> Poll<io::Result<usize>> {
        let me = &mut *self;
        assert!(me.n < 6, "mock bound: too many writes");
        me.w_off[me.n] = me.pos;
        me.w_len[me.n] = buf.len();
        me.w_b0[me.n] = if buf.len() > 0 { buf[0] } else { 0 };
        me.w_last[me.n] = if buf.len() > 0 { buf[buf.len() - 1] } else { 0 };
        me.n += 1;
        me.pos += buf.len() as u64;
        Poll::Ready(Ok(buf.len()))
    }
    fn poll_flush(self: Pin<&mut Self>, _cx: &mut Context<'_>) -> Poll<io::Result<()>> {
        Poll::Ready(Ok(()))
    }
    fn poll_shutdown(self: Pin<&mut Self>, _cx: &mut Context<'_>) -> Poll<io::Result<()>> {
        Poll::Ready(Ok(()))
    }
}
impl AsyncSeek for Out2 {
    fn start_seek(mut self: Pin<&mut Self>, position: SeekFrom) -> io::Result<()> {
        match position {
            SeekFrom::Start(p) => {
                self.pos = p;
                Ok(())
            }
            _ => panic!("only absolute seeks expected"),
        }
    }
    fn poll_complete(self: Pin<&mut Self>, _cx: &mut Context<'_>) -> Poll<io::Result<u64>> {
        Poll::Ready(Ok(self.pos))
    }
}
fn feed2(co: &mut CloneOutput<Out2>, v: &VerifiedChunk) -> io::Result<usize> {
    let mut cx = noop_cx();
    let fut = co.feed(v);
    tokio::pin!(fut);
    match fut.as_mut().poll(&mut cx) {
        Poll::Ready(r) => r,
        Poll::Pending => panic!("feed pending on a ready output"),
    }
}
/// chunk A (3 bytes) occurs at two offsets, chunk B (2 bytes) at one; feeds: A, A again (duplicate), C (not in the
/// index), B.  Chunk data symbolic; hashes, sizes and offsets concrete.
#[kani::proof]
#[kani::unwind(8)]
fn c13_feed_run_multi_offset_duplicate() {
    let a: [u8; 3] = kani::any();
    let b: [u8; 2] = kani::any();
    // offsets concrete as well (a symbolic offset makes the sorted insert / the offset loop symbolic control flow)
    let oa: [u64; 2] = [3, 10];
    let ob: u64 = 6;
    let mut idx = ChunkIndex::new_empty(2);
    crate::chunk_index::kani_proofs::add_entry2(&mut idx, &[0xA0u8, 1, 9], 3, oa[0], oa[1]);
    crate::chunk_index::kani_proofs::add_entry(&mut idx, &[0xB0u8, 2], 2, ob);
    assert!(idx.len() == 2);
    let out = Out2 { pos: 0, n: 0, w_off: [0; 6], w_len: [0; 6], w_b0: [0; 6], w_last: [0; 6] };
    let mut co = CloneOutput::new(out, idx);
    let va = VerifiedChunk { chunk: Chunk(Bytes::copy_from_slice(&a[..])), hash_sum: HashSum::from(&[0xA0u8, 1, 5, 5][..]) };
    let vb = VerifiedChunk { chunk: Chunk(Bytes::copy_from_slice(&b[..])), hash_sum: HashSum::from(&[0xB0u8, 2, 5, 5][..]) };
    let vc = VerifiedChunk { chunk: Chunk(Bytes::copy_from_slice(&b[..])), hash_sum: HashSum::from(&[0xC0u8, 3, 5, 5][..]) };
    // 1. A: written at both of its offsets, all bytes, once each; the entry is gone
    let r1 = feed2(&mut co, &va);
    assert!(matches!(r1, Ok(6)));
    assert!(co.inner.n == 2);
    assert!(co.inner.w_off[0] == oa[0] && co.inner.w_off[1] == oa[1]);
    assert!(co.inner.w_len[0] == 3 && co.inner.w_len[1] == 3);
    assert!(co.inner.w_b0[0] == a[0] && co.inner.w_last[0] == a[2] && co.inner.w_b0[1] == a[0] && co.inner.w_last[1] == a[2]);
    assert!(co.len() == 1 && !co.chunks().contains(va.hash()));
    // 2. the same chunk again (from a second seed, or from the archive): nothing is written a second time
    let r2 = feed2(&mut co, &va);
    assert!(matches!(r2, Ok(0)));
    assert!(co.inner.n == 2, "a location was written twice");
    // 3. a chunk that is not in the index: nothing written, nothing removed
    let r3 = feed2(&mut co, &vc);
    assert!(matches!(r3, Ok(0)) && co.inner.n == 2 && co.len() == 1);
    // 4. B
    let r4 = feed2(&mut co, &vb);
    assert!(matches!(r4, Ok(2)));
    assert!(co.inner.n == 3 && co.inner.w_off[2] == ob && co.inner.w_len[2] == 2 && co.inner.w_b0[2] == b[0] && co.inner.w_last[2] == b[1]);
    assert!(co.is_empty());
    kani::cover!(ob > oa[0] && ob < oa[1]);
    std::mem::forget(r1);
    std::mem::forget(r2);
    std::mem::forget(r3);
    std::mem::forget(r4);
    std::mem::forget(co);
    std::mem::forget(va);
    std::mem::forget(vb);
    std::mem::forget(vc);
}

/// one feed of a chunk that occurs at two offsets (data symbolic; hash, size, offsets concrete)
#[kani::proof]
#[kani::unwind(6)]
fn c13_feed_hit_two_offsets() {
    let a: [u8; 3] = kani::any();
    let mut idx = ChunkIndex::new_empty(2);
    crate::chunk_index::kani_proofs::add_entry2(&mut idx, &[0xA0u8, 1, 9], 3, 3, 10);
    crate::chunk_index::kani_proofs::add_entry(&mut idx, &[0xB0u8, 2], 2, 6);
    let out = Out2 { pos: 0, n: 0, w_off: [0; 6], w_len: [0; 6], w_b0: [0; 6], w_last: [0; 6] };
    let mut co = CloneOutput::new(out, idx);
    let va = VerifiedChunk { chunk: Chunk(Bytes::copy_from_slice(&a[..])), hash_sum: HashSum::from(&[0xA0u8, 1, 5, 5][..]) };
    let r1 = feed2(&mut co, &va);
    assert!(matches!(r1, Ok(6)));
    assert!(co.inner.n == 2);
    assert!(co.inner.w_off[0] == 3 && co.inner.w_off[1] == 10);
    assert!(co.inner.w_len[0] == 3 && co.inner.w_len[1] == 3);
    assert!(co.inner.w_b0[0] == a[0] && co.inner.w_last[0] == a[2] && co.inner.w_b0[1] == a[0] && co.inner.w_last[1] == a[2]);
    // the entry is gone: no later feed can write these locations again; the unrelated entry stays
    assert!(co.len() == 1 && !co.chunks().contains(va.hash()));
    kani::cover!(true);
    std::mem::forget(r1);
    std::mem::forget(co);
    std::mem::forget(va);
}

// ===========================================================================
// NOT REGISTERED (kept as the record of an attempt, see DESIGN.md section 7): even with a fully concrete layout
// this does not leave symbolic execution within 15 minutes.
// C03 scenario runs: the real planner (`ChunkIndex::reorder_ops`, through
// `strip_chunks_already_in_place`) and the real executor
// (`CloneOutput::reorder_in_place`) on a CONCRETE layout of chunks (identities,
// sizes, old and new offsets) over a file whose every BYTE is symbolic.  With
// the layout concrete the control flow is concrete and the whole run finishes;
// the solver decides "every reusable chunk ends up at all of its target
// offsets, byte for byte, and nothing else is written" for all contents.
// ===========================================================================
const FLEN2: usize = 12;
struct MemFile {
    data: [u8; FLEN2],
    pos: u64,
    writes: usize,
    w_off: [u64; 8],
    w_len: [usize; 8],
}
impl AsyncRead for MemFile {
    fn poll_read(mut self: Pin<&mut Self>, _cx: &mut Context<'_>, buf: &mut tokio::io::ReadBuf<'_>) -> Poll<io::Result<()>> {
        let me = &mut *self;
        let p = me.pos as usize;
        let mut n = buf.remaining();
        if p >= FLEN2 {
            n = 0;
        } else if n > FLEN2 - p {
            n = FLEN2 - p;
        }
        buf.put_slice(&me.data[p..p + n]);
        me.pos += n as u64;
        Poll::Ready(Ok(()))
    }
}
impl AsyncWrite for MemFile {
    fn poll_write(mut self: Pin<&mut Self>, _cx: &mut Context<'_>, buf: &[u8]) -> Poll<io::Result<usize>> {
        let me = &mut *self;
        let p = me.pos as usize;
        assert!(p + buf.len() <= FLEN2, "write beyond the modelled file");
        assert!(me.writes < 8, "mock bound: too many writes");
        me.w_off[me.writes] = me.pos;
        me.w_len[me.writes] = buf.len();
        me.writes += 1;
        let mut i = 0;
        while i < buf.len() {
            me.data[p + i] = buf[i];
            i += 1;
        }
        me.pos += buf.len() as u64;
        Poll::Ready(Ok(buf.len()))
    }
    fn poll_flush(self: Pin<&mut Self>, _cx: &mut Context<'_>) -> Poll<io::Result<()>> {
        Poll::Ready(Ok(()))
    }
    fn poll_shutdown(self: Pin<&mut Self>, _cx: &mut Context<'_>) -> Poll<io::Result<()>> {
        Poll::Ready(Ok(()))
    }
}
impl AsyncSeek for MemFile {
    fn start_seek(mut self: Pin<&mut Self>, position: SeekFrom) -> io::Result<()> {
        match position {
            SeekFrom::Start(p) => {
                self.pos = p;
                Ok(())
            }
            _ => panic!("only absolute seeks expected"),
        }
    }
    fn poll_complete(self: Pin<&mut Self>, _cx: &mut Context<'_>) -> Poll<io::Result<u64>> {
        Poll::Ready(Ok(self.pos))
    }
}

/// layout entry: (chunk id 1..=4, size, offset); id 0 = unused
type Lay = [(u8, usize, u64); 4];
fn index_of(l: &Lay) -> ChunkIndex {
    let mut idx = ChunkIndex::new_empty(1);
    let mut i = 0;
    while i < 4 {
        if l[i].0 != 0 {
            idx.add_chunk(HashSum::from(&[l[i].0][..]), l[i].1, &[l[i].2]);
        }
        i += 1;
    }
    idx
}
fn reorder_scenario(old: Lay, new: Lay) {
    let orig: [u8; FLEN2] = kani::any();
    let file = MemFile { data: orig, pos: 0, writes: 0, w_off: [0; 8], w_len: [0; 8] };
    let output_index = index_of(&old);
    let clone_index = index_of(&new);
    let mut co = CloneOutput::new(file, clone_index);
    let mut cx = noop_cx();
    let r = {
        let fut = co.reorder_in_place(output_index);
        tokio::pin!(fut);
        match fut.as_mut().poll(&mut cx) {
            Poll::Ready(r) => r,
            Poll::Pending => panic!("pending on a ready file"),
        }
    };
    assert!(r.is_ok());
    // every chunk of the new layout that exists in the old file now sits at its new offset, byte for byte
    let mut i = 0;
    while i < 4 {
        let (id, size, noff) = new[i];
        if id != 0 {
            // first location of that chunk in the old layout
            let mut src: Option<u64> = None;
            let mut j = 0;
            while j < 4 {
                if old[j].0 == id && src.is_none() {
                    src = Some(old[j].2);
                }
                j += 1;
            }
            if let Some(so) = src {
                let mut k = 0;
                while k < size {
                    assert!(co.inner.data[noff as usize + k] == orig[so as usize + k], "a reusable chunk was destroyed or misplaced");
                    k += 1;
                }
                // and it is no longer wanted from seeds / the archive
                assert!(!co.chunks().contains(&HashSum::from(&[id][..])));
            } else {
                assert!(co.chunks().contains(&HashSum::from(&[id][..])), "a chunk that is not in the old file must still be fetched");
            }
        }
        i += 1;
    }
    kani::cover!(co.inner.writes > 0);
    std::mem::forget(co);
    std::mem::forget(r);
}
/// swap of two chunks of different size (overlapping destinations, cycle): A(2)@0 B(3)@2  ->  B@0 A@3
#[kani::proof]
#[kani::unwind(8)]
fn c03_reorder_swap_ab() {
    reorder_scenario([(1, 2, 0), (2, 3, 2), (0, 0, 0), (0, 0, 0)], [(2, 3, 0), (1, 2, 3), (0, 0, 0), (0, 0, 0)]);
}
