//! One `CloneOutput::feed` from an arbitrary clone-index state (C02, C13, C05).
//! Model map instead of std HashMap; mock output records every seek/write and
//! can fail or accept only a prefix at an arbitrary point.
#![allow(dead_code, unused_imports)]
use super::*;
use crate::verif_support::{bytes_match, noop_cx};
use std::future::Future;
use bytes::Bytes;
use std::pin::Pin;
use std::task::{Context, Poll};

const MAXW: usize = 4;
/// Output: records (position, length, first byte) of every write call; the
/// k-th write call can fail (Err), or accept only `short` bytes, or report 0.
struct Out {
    pos: u64,
    n: usize,
    w_off: [u64; MAXW],
    w_len: [usize; MAXW],
    w_b0: [u8; MAXW],
    w_b1: [u8; MAXW],
    fail_write_at: usize,
    short_at: usize,
    short_len: usize,
    seeks: usize,
    fail_seek_at: usize,
    total: usize,
}
fn out() -> Out {
    Out { pos: 0, n: 0, w_off: [0; MAXW], w_len: [0; MAXW], w_b0: [0; MAXW], w_b1: [0; MAXW], fail_write_at: usize::MAX, short_at: usize::MAX, short_len: 0, seeks: 0, fail_seek_at: usize::MAX, total: 0 }
}
impl AsyncWrite for Out {
    fn poll_write(mut self: Pin<&mut Self>, _cx: &mut Context<'_>, buf: &[u8]) -> Poll<io::Result<usize>> {
        let me = &mut *self;
        if me.n == me.fail_write_at {
            return Poll::Ready(Err(io::ErrorKind::Other.into()));
        }
        assert!(me.n < MAXW, "mock bound: too many writes");
        let mut l = buf.len();
        if me.n == me.short_at && me.short_len < l {
            l = me.short_len; // torn write: only a prefix is accepted (0 = device full)
        }
        me.w_off[me.n] = me.pos;
        me.w_len[me.n] = l;
        me.w_b0[me.n] = if l > 0 { buf[0] } else { 0 };
        me.w_b1[me.n] = if l > 1 { buf[1] } else { 0 };
        me.n += 1;
        me.pos += l as u64;
        me.total += l;
        Poll::Ready(Ok(l))
    }
    fn poll_flush(self: Pin<&mut Self>, _cx: &mut Context<'_>) -> Poll<io::Result<()>> {
        Poll::Ready(Ok(()))
    }
    fn poll_shutdown(self: Pin<&mut Self>, _cx: &mut Context<'_>) -> Poll<io::Result<()>> {
        Poll::Ready(Ok(()))
    }
}
impl AsyncSeek for Out {
    fn start_seek(mut self: Pin<&mut Self>, position: SeekFrom) -> io::Result<()> {
        if self.seeks == self.fail_seek_at {
            return Err(io::ErrorKind::Other.into());
        }
        self.seeks += 1;
        match position {
            SeekFrom::Start(p) => {
                self.pos = p;
                Ok(())
            }
            _ => panic!("only absolute seeks expected"),
        }
    }
    fn poll_complete(self: Pin<&mut Self>, _cx: &mut Context<'_>) -> Poll<io::Result<u64>> {
        Poll::Ready(Ok(self.pos))
    }
}

static SRC: [u8; 4] = [0xA1, 0xB2, 0xC3, 0xD4];

struct Scenario {
    hl: usize,
    key: [u8; 4],
    hash: [u8; 8],
    size: usize,
    off: u64,
    hit: bool,
}
/// clone index with one entry (stored key `key` truncated to hl, `size`, one
/// offset) plus optionally a second, unrelated entry; a verified chunk with an
/// arbitrary 8-byte hash and `size` bytes of data
fn scenario(co_out: Out, two: bool) -> (CloneOutput<Out>, VerifiedChunk, Scenario) {
    let hl: usize = kani::any();
    kani::assume(hl >= 1 && hl <= 4);
    let key: [u8; 4] = kani::any();
    let hash: [u8; 8] = kani::any();
    let size: usize = kani::any();
    kani::assume(size >= 1 && size <= 4);
    let off: u64 = kani::any();
    kani::assume(off < 1 << 40);
    let mut idx = ChunkIndex::new_empty(hl);
    idx.add_chunk(HashSum::from(&key[..]), size, &[off]);
    if two {
        let key2: [u8; 4] = kani::any();
        // a different chunk: its truncated key differs from both
        kani::assume(key2[0] != key[0] && key2[0] != hash[0]);
        idx.add_chunk(HashSum::from(&key2[..]), 2, &[off + 100]);
    }
    let v = VerifiedChunk { chunk: Chunk(Bytes::from_static(&SRC[..size])), hash_sum: HashSum::from(&hash[..]) };
    let hit = (hl < 1 || hash[0] == key[0]) && (hl < 2 || hash[1] == key[1]) && (hl < 3 || hash[2] == key[2]) && (hl < 4 || hash[3] == key[3]);
    (CloneOutput::new(co_out, idx), v, Scenario { hl, key, hash, size, off, hit })
}
fn run_feed(co: &mut CloneOutput<Out>, v: &VerifiedChunk) -> io::Result<usize> {
    let mut cx = noop_cx();
    let fut = co.feed(v);
    tokio::pin!(fut);
    match fut.as_mut().poll(&mut cx) {
        Poll::Ready(r) => r,
        Poll::Pending => panic!("feed pending on a ready output"),
    }
}

/// C02 + C13, fault-free: a chunk whose truncated hash is in the index is
/// written -- all of its bytes, exactly once, at exactly the entry's offset --
/// and the entry is gone (no later feed can write that location again);
/// otherwise nothing at all is written and the index is unchanged.
#[kani::proof]
#[kani::unwind(6)]
fn c13_feed_step() {
    let (mut co, v, sc) = scenario(out(), false);
    let before = co.len();
    let r = run_feed(&mut co, &v);
    match r {
        Ok(n) => {
            if sc.hit {
                assert!(n == sc.size);
                assert!(co.inner.n == 1 && co.inner.seeks == 1);
                assert!(co.inner.w_off[0] == sc.off && co.inner.w_len[0] == sc.size);
                assert!(co.inner.w_b0[0] == SRC[0] && (sc.size < 2 || co.inner.w_b1[0] == SRC[1]));
                assert!(co.len() == before - 1 && !co.chunks().contains(v.hash()));
                kani::cover!(sc.hl == 4 && sc.size == 4);
            } else {
                assert!(n == 0 && co.inner.n == 0 && co.inner.seeks == 0);
                assert!(co.len() == before);
                kani::cover!(sc.hash[0] == sc.key[0] && sc.hl > 1); // differs only beyond the first byte
            }
        }
        Err(e) => {
            assert!(false, "no fault was injected");
            std::mem::forget(e);
        }
    }
    std::mem::forget(co);
    std::mem::forget(v);
}

/// same with a second, unrelated entry in the index: it is neither written nor removed
#[kani::proof]
#[kani::unwind(6)]
fn c13_feed_step_other_entry_untouched() {
    let (mut co, v, sc) = scenario(out(), true);
    let r = run_feed(&mut co, &v);
    match r {
        Ok(n) => {
            if sc.hit {
                assert!(n == sc.size && co.inner.n == 1 && co.inner.w_off[0] == sc.off && co.inner.w_len[0] == sc.size);
                assert!(co.len() == 1);
            } else {
                assert!(n == 0 && co.inner.n == 0 && co.len() == 2);
            }
            kani::cover!(sc.hit);
            kani::cover!(!sc.hit);
        }
        Err(e) => {
            assert!(false);
            std::mem::forget(e);
        }
    }
    std::mem::forget(co);
    std::mem::forget(v);
}

/// C05 (fault step): a seek or write that fails, or a write that is cut short
/// and then fails / reports 0, at any point => feed returns Err, never Ok
/// with fewer bytes on the output than the chunk has.
#[kani::proof]
#[kani::unwind(6)]
fn c05_feed_fault_step() {
    let mut o = out();
    o.fail_seek_at = kani::any();
    o.fail_write_at = kani::any();
    o.short_at = kani::any();
    o.short_len = kani::any();
    kani::assume(o.short_len <= 3);
    let (mut co, v, sc) = scenario(o, false);
    let r = run_feed(&mut co, &v);
    match r {
        Ok(n) => {
            if sc.hit {
                // success is only reported when every byte reached the output, contiguously from the entry's offset
                assert!(n == sc.size);
                assert!(co.inner.total == sc.size);
                assert!(co.inner.w_off[0] == sc.off);
                assert!(co.inner.n < 2 || co.inner.w_off[1] == sc.off + co.inner.w_len[0] as u64);
                assert!(co.inner.n < 3 || co.inner.w_off[2] == co.inner.w_off[1] + co.inner.w_len[1] as u64);
                kani::cover!(co.inner.n == 2); // torn write completed by write_all's second round
            } else {
                assert!(n == 0 && co.inner.n == 0);
            }
        }
        Err(e) => {
            assert!(sc.hit);
            assert!(co.inner.total < sc.size || co.inner.fail_write_at < MAXW);
            kani::cover!(co.inner.total > 0); // some bytes landed before the failure
            kani::cover!(co.inner.total == 0 && co.inner.seeks == 0); // seek failed
            std::mem::forget(e);
        }
    }
    std::mem::forget(co);
    std::mem::forget(v);
}
