//! Proofs about `Archive` post-decode consumers (child module of
//! bitar::archive): chunk_stream (C06, C17), pre-header (C17, C15),
//! configuration/compression from untrusted parameters (C15), source order
//! (C15), first-error-stops-stream (C08).
#![allow(dead_code, unused_imports, static_mut_refs)]
use super::*;
use crate::archive_reader::ArchiveReader;
use crate::chunk_index::kani_proofs as ci;
use crate::verif_support::noop_cx;
use async_trait::async_trait;
use bytes::Bytes;
use std::future::Future;
use std::pin::Pin;
use std::task::Context;

static BLOB: [u8; 8] = [0x11, 0x22, 0x33, 0x44, 0x55, 0x66, 0x77, 0x88];

/// Recording reader: logs the argument of read_chunks, answers item i with a
/// scripted length (slice of BLOB) or an error.
struct RecReader {
    calls: usize,
    n: usize,
    off: [u64; 3],
    size: [usize; 3],
    reply_len: [usize; 3],
    scripted_len: bool,
    reply_err: [bool; 3],
    read_at_calls: usize,
}
fn rec() -> RecReader {
    RecReader { calls: 0, n: 0, off: [0; 3], size: [0; 3], reply_len: [0; 3], scripted_len: false, reply_err: [false; 3], read_at_calls: 0 }
}
struct Replies {
    i: usize,
    n: usize,
    len: [usize; 3],
    err: [bool; 3],
}
impl Stream for Replies {
    type Item = Result<Bytes, ()>;
    fn poll_next(mut self: Pin<&mut Self>, _cx: &mut Context<'_>) -> Poll<Option<Self::Item>> {
        let i = self.i;
        if i >= self.n {
            return Poll::Ready(None);
        }
        self.i += 1;
        if self.err[i] {
            return Poll::Ready(Some(Err(())));
        }
        Poll::Ready(Some(Ok(Bytes::from_static(&BLOB[..self.len[i]]))))
    }
}
#[async_trait]
impl ArchiveReader for RecReader {
    type Error = ();
    async fn read_at<'a>(&'a mut self, _offset: u64, _size: usize) -> Result<Bytes, ()> {
        self.read_at_calls += 1;
        Err(())
    }
    fn read_chunks<'a>(&'a mut self, chunks: Vec<ChunkOffset>) -> Pin<Box<dyn Stream<Item = Result<Bytes, ()>> + Send + 'a>> {
        self.calls += 1;
        self.n = chunks.len();
        assert!(self.n <= 3);
        if self.n > 0 {
            self.off[0] = chunks[0].offset;
            self.size[0] = chunks[0].size;
        }
        if self.n > 1 {
            self.off[1] = chunks[1].offset;
            self.size[1] = chunks[1].size;
        }
        if self.n > 2 {
            self.off[2] = chunks[2].offset;
            self.size[2] = chunks[2].size;
        }
        std::mem::forget(chunks);
        // a well-behaved reader: item i has the size that was asked for (unless a harness scripts reply_len)
        let len = if self.scripted_len { self.reply_len } else { self.size };
        Box::pin(Replies { i: 0, n: self.n, len, err: self.reply_err })
    }
}

fn mk_archive<R>(reader: R, descs: Vec<ChunkDescriptor>, order: Vec<usize>, comp: Option<Compression>) -> Archive<R> {
    Archive {
        reader,
        total_chunks: order.len(),
        archive_chunks: descs,
        source_order: order,
        header_size: 0,
        header_checksum: HashSum::from(&[0u8; 1][..]),
        chunk_compression: comp,
        created_by_app_version: String::new(),
        chunk_data_offset: 0,
        source_total_size: 0,
        source_checksum: HashSum::from(&[0u8; 1][..]),
        chunker_config: chunker::Config::FixedSize(1),
        chunk_hash_length: 1,
        metadata: BTreeMap::new(),
    }
}

/// three descriptors with distinct 1-byte checksums 1,2,3; offsets/sizes symbolic: any order, gaps, overlaps
fn descs3() -> ([u64; 3], [usize; 3], [u32; 3], Vec<ChunkDescriptor>) {
    let o: [u64; 3] = kani::any();
    let a: [u8; 3] = kani::any();
    let s: [u8; 3] = kani::any();
    kani::assume(a[0] >= 1 && a[0] <= 4 && a[1] >= 1 && a[1] <= 4 && a[2] >= 1 && a[2] <= 4);
    kani::assume(s[0] >= 1 && s[0] <= 4 && s[1] >= 1 && s[1] <= 4 && s[2] >= 1 && s[2] <= 4);
    let mut v = Vec::with_capacity(3);
    v.push(ChunkDescriptor { checksum: HashSum::from(&[1u8][..]), archive_size: a[0] as usize, archive_offset: o[0], source_size: s[0] as u32 });
    v.push(ChunkDescriptor { checksum: HashSum::from(&[2u8][..]), archive_size: a[1] as usize, archive_offset: o[1], source_size: s[1] as u32 });
    v.push(ChunkDescriptor { checksum: HashSum::from(&[3u8][..]), archive_size: a[2] as usize, archive_offset: o[2], source_size: s[2] as u32 });
    (o, [a[0] as usize, a[1] as usize, a[2] as usize], [s[0] as u32, s[1] as u32, s[2] as u32], v)
}

/// two descriptors with distinct 1-byte checksums 1,2; stored/source sizes concrete per instance, offsets any u64:
/// any order, gaps, overlaps
fn descs2(a: [usize; 2], s: [u32; 2]) -> ([u64; 2], Vec<ChunkDescriptor>) {
    let o: [u64; 2] = kani::any();
    let mut v = Vec::with_capacity(2);
    v.push(ChunkDescriptor { checksum: HashSum::from(&[1u8][..]), archive_size: a[0], archive_offset: o[0], source_size: s[0] });
    v.push(ChunkDescriptor { checksum: HashSum::from(&[2u8][..]), archive_size: a[1], archive_offset: o[1], source_size: s[1] });
    (o, v)
}
fn next_item<S: Stream<Item = Result<CompressedArchiveChunk, ()>> + Unpin>(st: &mut S, cx: &mut Context<'_>) -> Option<(u8, bool)> {
    match Pin::new(st).poll_next(cx) {
        Poll::Ready(Some(Ok(c))) => {
            let r = (c.expected_hash.slice()[0], c.chunk.compression.is_none());
            assert!(c.chunk.compression.is_none() || c.chunk.compression == Some(CompressionAlgorithm::Brotli));
            std::mem::forget(c);
            Some(r)
        }
        Poll::Ready(None) => None,
        _ => {
            assert!(false, "unexpected error/pending from a well-behaved reader");
            None
        }
    }
}

/// C06 + C17: the read_chunks argument is exactly the descriptors whose
/// checksum is still in the clone index -- each once, in descriptor order,
/// (archive_offset, archive_size) verbatim, whatever their order/gaps -- and
/// nothing else is read; item i carries descriptor i's checksum, and is raw
/// iff the stored size equals the source size, else the archive-wide algorithm.
/// Which chunks are still wanted, the sizes and the archive-wide compression are concrete per instance (the filter /
/// collect / enumerate pipeline only gets through the solver cheaply with concrete control flow); the archive
/// offsets are arbitrary u64 values.
fn chunk_stream_step(want: [bool; 2], a: [usize; 2], s: [u32; 2], compressed: bool) {
    let (o, descs) = descs2(a, s);
    let mut idx = ChunkIndex::new_empty(1);
    if want[0] {
        ci::add_entry(&mut idx, &[1u8], s[0] as usize, 0);
    }
    if want[1] {
        ci::add_entry(&mut idx, &[2u8], s[1] as usize, 10);
    }
    let comp = if compressed { Some(Compression { algorithm: CompressionAlgorithm::Brotli, level: 6 }) } else { None };
    let rd = rec();
    let mut ar = mk_archive(rd, descs, Vec::new(), comp);
    let mut cx = noop_cx();
    let (i0, i1, i2) = {
        let mut st = ar.chunk_stream(&idx);
        let i0 = next_item(&mut st, &mut cx);
        let i1 = if i0.is_some() { next_item(&mut st, &mut cx) } else { None };
        let i2 = if i1.is_some() { next_item(&mut st, &mut cx) } else { None };
        std::mem::forget(st);
        (i0, i1, i2)
    };
    let rd = &ar.reader;
    assert!(rd.calls == 1 && rd.read_at_calls == 0);
    assert!(i2.is_none());
    let raw0 = !compressed || a[0] == s[0] as usize;
    let raw1 = !compressed || a[1] == s[1] as usize;
    match (want[0], want[1]) {
        (true, true) => {
            assert!(rd.n == 2 && rd.off[0] == o[0] && rd.size[0] == a[0] && rd.off[1] == o[1] && rd.size[1] == a[1]);
            assert!(i0 == Some((1, raw0)) && i1 == Some((2, raw1)));
        }
        (true, false) => {
            assert!(rd.n == 1 && rd.off[0] == o[0] && rd.size[0] == a[0]);
            assert!(i0 == Some((1, raw0)) && i1.is_none());
        }
        (false, true) => {
            assert!(rd.n == 1 && rd.off[0] == o[1] && rd.size[0] == a[1]);
            assert!(i0 == Some((2, raw1)) && i1.is_none());
        }
        (false, false) => {
            assert!(rd.n == 0 && i0.is_none());
        }
    }
    kani::cover!(o[1] < o[0]); // stored in descending order
    kani::cover!(o[1] == o[0].wrapping_add(a[0] as u64 + 7)); // a gap
    std::mem::forget(ar);
    std::mem::forget(idx);
}
macro_rules! chunk_stream_step {
    ($name:ident, $want:expr, $a:expr, $s:expr, $c:expr) => {
        #[kani::proof]
        #[kani::unwind(4)]
        fn $name() {
            chunk_stream_step($want, $a, $s, $c);
        }
    };
}
chunk_stream_step!(c06_chunk_stream_both_raw_comp, [true, true], [2, 3], [2, 4], true); // first stored raw, second compressed
chunk_stream_step!(c06_chunk_stream_both_comp_raw, [true, true], [1, 4], [3, 4], true);
chunk_stream_step!(c06_chunk_stream_both_nocomp, [true, true], [2, 3], [2, 3], false);
chunk_stream_step!(c06_chunk_stream_first_only, [true, false], [3, 2], [4, 2], true);
chunk_stream_step!(c06_chunk_stream_second_only, [false, true], [2, 3], [2, 4], true);
chunk_stream_step!(c06_chunk_stream_second_only_raw, [false, true], [1, 2], [3, 2], true);
chunk_stream_step!(c06_chunk_stream_none, [false, false], [2, 3], [2, 4], true);

/// Three descriptors (checksums 1,2,3; sizes concrete, offsets any u64), a concrete subset still wanted -- in
/// particular an unwanted descriptor BETWEEN two wanted ones, which two descriptors cannot express.
fn chunk_stream_step3(want: [bool; 3], a: [usize; 3], s: [u32; 3], compressed: bool) {
    let o: [u64; 3] = kani::any();
    let mut descs = Vec::with_capacity(3);
    descs.push(ChunkDescriptor { checksum: HashSum::from(&[1u8][..]), archive_size: a[0], archive_offset: o[0], source_size: s[0] });
    descs.push(ChunkDescriptor { checksum: HashSum::from(&[2u8][..]), archive_size: a[1], archive_offset: o[1], source_size: s[1] });
    descs.push(ChunkDescriptor { checksum: HashSum::from(&[3u8][..]), archive_size: a[2], archive_offset: o[2], source_size: s[2] });
    let mut idx = ChunkIndex::new_empty(1);
    if want[0] {
        ci::add_entry(&mut idx, &[1u8], s[0] as usize, 0);
    }
    if want[1] {
        ci::add_entry(&mut idx, &[2u8], s[1] as usize, 10);
    }
    if want[2] {
        ci::add_entry(&mut idx, &[3u8], s[2] as usize, 20);
    }
    let comp = if compressed { Some(Compression { algorithm: CompressionAlgorithm::Brotli, level: 6 }) } else { None };
    let mut ar = mk_archive(rec(), descs, Vec::new(), comp);
    let mut cx = noop_cx();
    let mut items: [Option<(u8, bool)>; 4] = [None; 4];
    {
        let mut st = ar.chunk_stream(&idx);
        items[0] = next_item(&mut st, &mut cx);
        items[1] = if items[0].is_some() { next_item(&mut st, &mut cx) } else { None };
        items[2] = if items[1].is_some() { next_item(&mut st, &mut cx) } else { None };
        items[3] = if items[2].is_some() { next_item(&mut st, &mut cx) } else { None };
        std::mem::forget(st);
    }
    let rd = &ar.reader;
    assert!(rd.calls == 1 && rd.read_at_calls == 0);
    // expected: the wanted descriptors, in descriptor order
    let mut e = 0;
    let mut k = 0;
    while k < 3 {
        if want[k] {
            assert!(rd.off[e] == o[k] && rd.size[e] == a[k], "requested range is not the wanted descriptor's stored range");
            let raw = !compressed || a[k] == s[k] as usize;
            assert!(items[e] == Some((k as u8 + 1, raw)), "item is paired with the wrong descriptor");
            e += 1;
        }
        k += 1;
    }
    assert!(rd.n == e && items[e].is_none());
    kani::cover!(o[2] < o[0]);
    std::mem::forget(ar);
    std::mem::forget(idx);
}
macro_rules! chunk_stream_step3 {
    ($name:ident, $want:expr, $a:expr, $s:expr, $c:expr) => {
        #[kani::proof]
        #[kani::unwind(5)]
        fn $name() {
            chunk_stream_step3($want, $a, $s, $c);
        }
    };
}
chunk_stream_step3!(c06_chunk_stream3_tft, [true, false, true], [2, 3, 1], [2, 4, 3], true);
chunk_stream_step3!(c06_chunk_stream3_ftt, [false, true, true], [2, 3, 1], [2, 4, 3], true);
chunk_stream_step3!(c06_chunk_stream3_ttt, [true, true, true], [2, 3, 1], [2, 3, 1], false);
chunk_stream_step3!(c06_chunk_stream3_fft, [false, false, true], [2, 3, 1], [2, 4, 1], true);
chunk_stream_step3!(c06_chunk_stream3_ttf, [true, true, false], [1, 3, 2], [3, 3, 2], true);

/// C08-7: after the first error the stream ends and the inner stream is not polled again.
struct Scripted {
    items: [u8; 4], // 0 = end, 1 = Ok, 2 = Err
    i: usize,
    polls: usize,
}
impl Stream for Scripted {
    type Item = Result<u8, u8>;
    fn poll_next(mut self: Pin<&mut Self>, _cx: &mut Context<'_>) -> Poll<Option<Self::Item>> {
        self.polls += 1;
        let i = self.i;
        if i >= 4 || self.items[i] == 0 {
            return Poll::Ready(None);
        }
        self.i += 1;
        if self.items[i] == 1 {
            Poll::Ready(Some(Ok(i as u8)))
        } else {
            Poll::Ready(Some(Err(i as u8)))
        }
    }
}
#[kani::proof]
#[kani::unwind(8)]
fn c08_first_error_ends_stream() {
    let items: [u8; 4] = kani::any();
    kani::assume(items[0] <= 2 && items[1] <= 2 && items[2] <= 2 && items[3] <= 2);
    let mut s = StreamUntilFirstError::new(Scripted { items, i: 0, polls: 0 });
    let mut cx = noop_cx();
    let mut seen_err = false;
    let mut polls_at_err = 0;
    let mut n = 0;
    while n < 6 {
        n += 1;
        match Pin::new(&mut s).poll_next(&mut cx) {
            Poll::Ready(Some(Ok(_))) => assert!(!seen_err),
            Poll::Ready(Some(Err(_))) => {
                assert!(!seen_err);
                seen_err = true;
                polls_at_err = s.stream.polls;
            }
            Poll::Ready(None) => {
                if seen_err {
                    assert!(s.stream.polls == polls_at_err); // not polled again
                }
            }
            Poll::Pending => assert!(false),
        }
    }
    kani::cover!(seen_err && items[0] == 1 && items[1] == 2 && items[2] == 1);
    kani::cover!(!seen_err);
}

/// C17/C15: verify_pre_header accepts exactly the two documented magics, for every byte string <= 16 bytes
#[kani::proof]
#[kani::unwind(18)]
fn c17_pre_header_magics() {
    let b: [u8; 16] = kani::any();
    let n: usize = kani::any();
    kani::assume(n <= 16);
    let r: Result<(), ArchiveError<()>> = Archive::<()>::verify_pre_header(&b[..n]);
    let cur = n >= 6 && b[0] == b'B' && b[1] == b'I' && b[2] == b'T' && b[3] == b'A' && b[4] == b'1' && b[5] == 0;
    let legacy = n >= 6 && b[0] == 0 && b[1] == b'B' && b[2] == b'I' && b[3] == b'T' && b[4] == b'A' && b[5] == b'1';
    match r {
        Ok(()) => assert!(cur || legacy),
        Err(e) => {
            assert!(!cur && !legacy);
            std::mem::forget(e);
        }
    }
    kani::cover!(cur);
    kani::cover!(legacy);
    kani::cover!(n < 6);
}

/// C15: chunker/compression parameters from an untrusted dictionary never panic while being converted
#[kani::proof]
#[kani::unwind(4)]
fn c15_params_any() {
    let p = dict::ChunkerParameters {
        chunk_filter_bits: kani::any(),
        min_chunk_size: kani::any(),
        max_chunk_size: kani::any(),
        rolling_hash_window_size: kani::any(),
        chunk_hash_length: kani::any(),
        chunking_algorithm: kani::any(),
    };
    let alg = p.chunking_algorithm;
    let r: Result<chunker::Config, ArchiveError<()>> = chunker_config_from_params(p);
    match r {
        Ok(c) => {
            assert!(alg >= 0 && alg <= 2);
            std::mem::forget(c);
        }
        Err(e) => {
            // unknown algorithm, or parameters the reader's validation rejects
            kani::cover!(alg < 0 || alg > 2);
            kani::cover!(alg == 0);
            std::mem::forget(e);
        }
    }
    let c = dict::ChunkCompression { compression: kani::any(), compression_level: kani::any() };
    let ct = c.compression;
    let r2: Result<Option<Compression>, ArchiveError<()>> = compression_from_dictionary(c);
    match r2 {
        Ok(v) => {
            assert!(ct == 0 || ct == 3); // none / brotli are the ones this build supports
            std::mem::forget(v);
        }
        Err(e) => std::mem::forget(e),
    }
    kani::cover!(alg == 1);
    kani::cover!(ct == 3);
}

/// C15: rebuild order indexes from an untrusted dictionary: whatever the reader's validation
/// (`source_order_is_valid`, called by try_init) ACCEPTS must iterate without a panic.
/// restrict: 0 = every index; 1 = only orders with an index >= number of descriptors (finding F10)
fn source_order(restrict: u8) {
    let (_o, _a, s, descs) = descs3();
    let ord: [usize; 2] = kani::any();
    if restrict == 1 {
        kani::assume(ord[0] >= 3 || ord[1] >= 3);
    }
    let mut order = Vec::with_capacity(2);
    order.push(ord[0]);
    order.push(ord[1]);
    if !source_order_is_valid(&order[..], descs.len()) {
        kani::cover!(true); // something is rejected
        std::mem::forget(order);
        std::mem::forget(descs);
        return;
    }
    assert!(ord[0] < 3 && ord[1] < 3);
    let ar = mk_archive((), descs, order, None);
    let mut it = ar.iter_source_chunks();
    let first = it.next();
    let second = it.next();
    if let (Some((o0, d0)), Some((o1, _d1))) = (first, second) {
        assert!(o0 == 0 && o1 == d0.source_size as u64);
        assert!(d0.source_size == s[ord[0]]);
        kani::cover!(ord[0] == 2 && ord[1] == 2); // duplicate chunk
    }
    std::mem::forget(it);
    std::mem::forget(ar);
}
#[kani::proof]
#[kani::unwind(6)]
fn c15_source_order_valid() {
    source_order(0);
}

// ---------------------------------------------------------------------------
// C15: from untrusted dictionary parameters to a running chunker.  Whatever
// `chunker_config_from_params` ACCEPTS must construct and run without a
// panic and must never yield an empty chunk (which would repeat forever).
// ---------------------------------------------------------------------------
use crate::chunker::{Chunker, FixedSizeChunker, RollingHashChunker};
use crate::rolling_hash::{BuzHash, RollSum};
use bytes::BytesMut;

fn any_params(small: bool) -> dict::ChunkerParameters {
    let p = dict::ChunkerParameters {
        chunk_filter_bits: kani::any(),
        min_chunk_size: kani::any(),
        max_chunk_size: kani::any(),
        rolling_hash_window_size: kani::any(),
        chunk_hash_length: kani::any(),
        chunking_algorithm: kani::any(),
    };
    if small {
        kani::assume(p.min_chunk_size <= 9 && p.max_chunk_size <= 9 && p.rolling_hash_window_size <= 9);
    }
    p
}
fn run_next<C: Chunker>(mut c: C) {
    let data: [u8; 6] = kani::any();
    let len: usize = kani::any();
    kani::assume(len <= 6);
    let mut buf = BytesMut::with_capacity(6);
    buf.extend_from_slice(&data[..len]);
    let r = c.next(&mut buf);
    if let Some(ch) = &r {
        assert!(ch.len() >= 1, "zero-length chunk: the chunk stream would never end");
    }
    kani::cover!(r.is_some());
    kani::cover!(r.is_none() && len > 0);
    std::mem::forget(r);
    std::mem::forget(buf);
    std::mem::forget(c);
}
#[kani::proof]
#[kani::unwind(12)]
fn c15_accepted_params_run_rollsum() {
    let p = any_params(true);
    kani::assume(p.chunking_algorithm == 1);
    let r: Result<chunker::Config, ArchiveError<()>> = chunker_config_from_params(p);
    match r {
        Ok(chunker::Config::RollSum(fc)) => run_next(RollingHashChunker::new(RollSum::new(fc.window_size), &fc)),
        Ok(_) => assert!(false),
        Err(e) => {
            kani::cover!(true); // something is rejected
            std::mem::forget(e);
        }
    }
}
#[kani::proof]
#[kani::unwind(12)]
fn c15_accepted_params_run_buzhash() {
    let p = any_params(true);
    kani::assume(p.chunking_algorithm == 0);
    // concrete window per path keeps BuzHash encodable: enumerate the small windows
    kani::assume(p.rolling_hash_window_size <= 3);
    let r: Result<chunker::Config, ArchiveError<()>> = chunker_config_from_params(p);
    match r {
        Ok(chunker::Config::BuzHash(fc)) => {
            let h = match fc.window_size {
                1 => crate::rolling_hash::buzhash_proofs::mk(1),
                2 => crate::rolling_hash::buzhash_proofs::mk(2),
                3 => crate::rolling_hash::buzhash_proofs::mk(3),
                _ => {
                    assert!(false, "window 0 accepted");
                    return;
                }
            };
            run_next(RollingHashChunker::new(h, &fc))
        }
        Ok(_) => assert!(false),
        Err(e) => {
            kani::cover!(true);
            std::mem::forget(e);
        }
    }
}
#[kani::proof]
#[kani::unwind(12)]
fn c15_accepted_params_run_fixed() {
    let p = any_params(true);
    kani::assume(p.chunking_algorithm == 2);
    let r: Result<chunker::Config, ArchiveError<()>> = chunker_config_from_params(p);
    match r {
        Ok(chunker::Config::FixedSize(n)) => run_next(FixedSizeChunker::new(n)),
        Ok(_) => assert!(false),
        Err(e) => {
            kani::cover!(true);
            std::mem::forget(e);
        }
    }
}
/// full u32 width: the arithmetic of the constructors (mask, hash_input_limit) and of info's
/// chunk_target_average for every ACCEPTED parameter set
#[kani::proof]
#[kani::unwind(4)]
fn c15_accepted_params_arith_full_width() {
    let p = any_params(false);
    let r: Result<chunker::Config, ArchiveError<()>> = chunker_config_from_params(p);
    match r {
        Ok(chunker::Config::RollSum(fc)) | Ok(chunker::Config::BuzHash(fc)) => {
            let c = RollingHashChunker::new((), &fc);
            let _avg = fc.filter_bits.chunk_target_average(); // printed by `bita info`
            assert!(fc.window_size >= 1 && fc.window_size <= fc.max_chunk_size && fc.min_chunk_size <= fc.max_chunk_size);
            kani::cover!(fc.filter_bits.bits() == 30);
            std::mem::forget(c);
        }
        Ok(chunker::Config::FixedSize(n)) => assert!(n >= 1),
        Err(e) => std::mem::forget(e),
    }
}

// ===========================================================================
// try_init, post-decode.  Blake2 over the header bytes and protobuf decoding cannot be encoded; under cfg(kani) the
// mirror skips the checksum test and takes the decoded dictionary from `injected_dictionary()` (mirror edit 3d).
// Everything try_init does with the decoded dictionary -- absolute descriptor offsets, sizes, order, rebuild order
// and its validation, hash length, header size, parameter conversion -- runs as written, on a dictionary whose
// every numeric field is symbolic.
// ===========================================================================
pub(crate) static mut INJ: Option<dict::ChunkDictionary> = None;
pub(crate) fn injected_dictionary() -> dict::ChunkDictionary {
    unsafe { INJ.take().expect("harness did not inject a dictionary") }
}
/// reader for try_init: first read = pre-header (magic + dictionary size), second = 4 + 8 + 64 bytes of which the
/// 8 bytes after the "dictionary" are the chunk data offset.  What was asked for is recorded in plain statics
/// (records kept in fields of the reader, which lives inside try_init's coroutine, were silently lost by CBMC).
struct HeaderReader;
static mut PRE: [u8; 14] = [b'B', b'I', b'T', b'A', b'1', 0, 4, 0, 0, 0, 0, 0, 0, 0];
static mut REST: [u8; 76] = [0; 76];
static mut HR_READS: usize = 0;
static mut HR_OFF0: u64 = 0;
static mut HR_SIZE0: usize = 0;
static mut HR_OFF1: u64 = 0;
static mut HR_SIZE1: usize = 0;
/// false: the second read fails (harnesses that only look at the pre-header arithmetic)
static mut HR_SECOND_OK: bool = true;
#[async_trait]
impl ArchiveReader for HeaderReader {
    type Error = ();
    async fn read_at<'a>(&'a mut self, offset: u64, size: usize) -> Result<Bytes, ()> {
        unsafe {
            let k = HR_READS;
            HR_READS += 1;
            if k == 0 {
                HR_OFF0 = offset;
                HR_SIZE0 = size;
                Ok(Bytes::from_static(&PRE[..]))
            } else if k == 1 {
                HR_OFF1 = offset;
                HR_SIZE1 = size;
                if HR_SECOND_OK {
                    Ok(Bytes::from_static(&REST[..]))
                } else {
                    Err(())
                }
            } else {
                Err(())
            }
        }
    }
    fn read_chunks<'a>(&'a mut self, _chunks: Vec<ChunkOffset>) -> Pin<Box<dyn Stream<Item = Result<Bytes, ()>> + Send + 'a>> {
        panic!("try_init must not read chunks")
    }
}
fn try_init_post_decode(assume_no_overflow: bool) {
    try_init_post_decode_at(assume_no_overflow, false);
}
fn try_init_post_decode_at(assume_no_overflow: bool, concrete_desc: bool) {
    let mut cdo: u64 = kani::any();
    let mut rel: [u64; 2] = kani::any();
    if concrete_desc {
        // stored in descending order, concretely: a reader that reorders the descriptors runs a sort, which CBMC
        // only gets through on concrete keys (the symbolic instance then ends without a verdict)
        cdo = 1000;
        rel = [500, 20];
    }
    let asz: [u32; 2] = kani::any();
    let ssz: [u32; 2] = kani::any();
    let order: [u32; 2] = kani::any();
    let hl: u32 = kani::any();
    let total: u64 = kani::any();
    if assume_no_overflow {
        kani::assume(cdo <= 1 << 62 && rel[0] <= 1 << 62 && rel[1] <= 1 << 62);
    }
    let mut descs = Vec::with_capacity(2);
    let mut c0 = Vec::with_capacity(2);
    c0.push(0x11u8);
    c0.push(0x12u8);
    let mut c1 = Vec::with_capacity(2);
    c1.push(0x21u8);
    c1.push(0x22u8);
    descs.push(dict::ChunkDescriptor { checksum: c0, archive_size: asz[0], archive_offset: rel[0], source_size: ssz[0] });
    descs.push(dict::ChunkDescriptor { checksum: c1, archive_size: asz[1], archive_offset: rel[1], source_size: ssz[1] });
    let mut ro = Vec::with_capacity(2);
    ro.push(order[0]);
    ro.push(order[1]);
    let d = dict::ChunkDictionary {
        application_version: String::new(),
        source_checksum: Vec::new(),
        source_total_size: total,
        chunker_params: Some(dict::ChunkerParameters {
            chunk_filter_bits: 0,
            min_chunk_size: 0,
            max_chunk_size: 7,
            rolling_hash_window_size: 0,
            chunk_hash_length: hl,
            chunking_algorithm: 2, // FixedSize(7)
        }),
        chunk_compression: Some(dict::ChunkCompression { compression: 0, compression_level: 0 }),
        rebuild_order: ro,
        chunk_descriptors: descs,
        metadata: BTreeMap::new(),
    };
    unsafe {
        INJ = Some(d);
    }
    let cb = cdo.to_le_bytes();
    unsafe {
        REST[4] = cb[0];
        REST[5] = cb[1];
        REST[6] = cb[2];
        REST[7] = cb[3];
        REST[8] = cb[4];
        REST[9] = cb[5];
        REST[10] = cb[6];
        REST[11] = cb[7];
    }
    let rd = HeaderReader;
    let mut cx = noop_cx();
    let r = {
        let fut = Archive::try_init(rd);
        tokio::pin!(fut);
        match fut.as_mut().poll(&mut cx) {
            Poll::Ready(r) => r,
            Poll::Pending => panic!("pending on a ready reader"),
        }
    };
    match r {
        Ok(ar) => {
            // only the header region was read: pre-header, then dictionary + offset + checksum
            unsafe {
                assert!(HR_READS == 2);
                assert!(HR_OFF0 == 0 && HR_SIZE0 == 14);
                assert!(HR_OFF1 == 14 && HR_SIZE1 == 4 + 8 + 64);
            }
            assert!(ar.header_size() == 14 + 4 + 8 + 64);
            assert!(ar.chunk_data_offset() == cdo);
            // descriptors: same order as in the dictionary, sizes and checksums verbatim, absolute offset =
            // stored chunk data offset + relative offset (nothing inferred from the header size)
            let cds = ar.chunk_descriptors();
            assert!(cds.len() == 2);
            assert!(cds[0].archive_offset == cdo + rel[0] && cds[1].archive_offset == cdo + rel[1]);
            assert!(cds[0].archive_size == asz[0] as usize && cds[1].archive_size == asz[1] as usize);
            // the end of every accepted stored chunk is expressible (bita's own accessor must not overflow; the
            // readers compute offset + size the same way)
            let _ = cds[0].archive_end_offset();
            let _ = cds[1].archive_end_offset();
            assert!(cds[0].source_size == ssz[0] && cds[1].source_size == ssz[1]);
            assert!(cds[0].checksum.slice()[0] == 0x11 && cds[0].checksum.len() == 2 && cds[1].checksum.slice()[1] == 0x22);
            // rebuild order verbatim and valid
            assert!(order[0] < 2 && order[1] < 2);
            assert!(ar.total_chunks() == 2);
            assert!(ar.source_order[0] == order[0] as usize && ar.source_order[1] == order[1] as usize);
            assert!(ar.chunk_hash_length() == hl as usize);
            assert!(ar.total_source_size() == total);
            kani::cover!(rel[1] < rel[0]); // stored in descending order (always, in the concrete twin)
            kani::cover!(order[0] == 1 && order[1] == 1);
            std::mem::forget(ar);
        }
        Err(e) => {
            // with these parameters only an out-of-range rebuild index or a chunk range beyond u64::MAX is a reason
            // to refuse
            let range_ok = |i: usize| match cdo.checked_add(rel[i]) {
                Some(o) => o.checked_add(asz[i] as u64).is_some(),
                None => false,
            };
            assert!(order[0] >= 2 || order[1] >= 2 || !range_ok(0) || !range_ok(1));
            kani::cover!(true);
            std::mem::forget(e);
        }
    }
}
#[kani::proof]
#[kani::unwind(8)]
fn c17_try_init_post_decode() {
    try_init_post_decode(true);
}
#[kani::proof]
#[kani::unwind(8)]
fn c17_try_init_post_decode_desc() {
    try_init_post_decode_at(true, true);
}
/// C15: the same with unconstrained offsets: `chunk_data_offset + archive_offset` must not panic
#[kani::proof]
#[kani::unwind(8)]
fn c15_try_init_offsets_any() {
    try_init_post_decode(false);
}

/// C15: the dictionary size of the pre-header is attacker-controlled and is used before any checksum can be
/// verified: for EVERY 8-byte size field, try_init must not panic on the way to its second read, and that read asks
/// for exactly dictionary + chunk-data-offset + checksum bytes.  (The second read fails here, which ends try_init.)
#[kani::proof]
#[kani::unwind(16)]
fn c15_try_init_dictionary_size_any() {
    let sz: [u8; 8] = kani::any();
    unsafe {
        PRE[6] = sz[0];
        PRE[7] = sz[1];
        PRE[8] = sz[2];
        PRE[9] = sz[3];
        PRE[10] = sz[4];
        PRE[11] = sz[5];
        PRE[12] = sz[6];
        PRE[13] = sz[7];
        HR_SECOND_OK = false;
    }
    let mut cx = noop_cx();
    let r = {
        let fut = Archive::try_init(HeaderReader);
        tokio::pin!(fut);
        match fut.as_mut().poll(&mut cx) {
            Poll::Ready(r) => r,
            Poll::Pending => panic!("pending on a ready reader"),
        }
    };
    let d = u64::from_le_bytes(sz);
    match r {
        Ok(ar) => {
            assert!(false, "the second read failed");
            std::mem::forget(ar);
        }
        Err(e) => {
            unsafe {
                // either refused before the second read, or the second read asked for exactly the declared region
                assert!(HR_READS == 1 || (HR_READS == 2 && HR_OFF1 == 14 && HR_SIZE1 as u64 == d + 72));
                kani::cover!(HR_READS == 2);
                kani::cover!(HR_READS == 1);
            }
            std::mem::forget(e);
        }
    }
}


/// C15 (inspecting): the "Average chunk size" that `bita info` and the summary of `bita compress` print -- the
/// expression is extracted textually from src/info_cmd.rs on every run -- must be computable for every archive that
/// opens: 0, 1 or 2 descriptors (an empty source has none), any source sizes.
fn info_average(n: usize) {
    let ss: [u32; 2] = kani::any();
    let mut descs = Vec::with_capacity(2);
    if n > 0 {
        descs.push(ChunkDescriptor { checksum: HashSum::from(&[1u8][..]), archive_size: 1, archive_offset: 0, source_size: ss[0] });
    }
    if n > 1 {
        descs.push(ChunkDescriptor { checksum: HashSum::from(&[2u8][..]), archive_size: 1, archive_offset: 1, source_size: ss[1] });
    }
    let ar = mk_archive((), descs, Vec::new(), None);
    let avg = crate::verif_cli_extract::cli_average_chunk_size(&ar);
    if n == 1 {
        assert!(avg == ss[0] as u64);
    }
    if n == 2 {
        assert!(avg == (ss[0] as u64 + ss[1] as u64) / 2);
    }
    kani::cover!(true);
    std::mem::forget(ar);
}
#[kani::proof]
#[kani::unwind(4)]
fn c15_info_average_empty_archive() {
    info_average(0);
}
#[kani::proof]
#[kani::unwind(4)]
fn c15_info_average_one_chunk() {
    info_average(1);
}
#[kani::proof]
#[kani::unwind(4)]
fn c15_info_average_two_chunks() {
    info_average(2);
}
