//! Proofs about `RollingHashChunker` (child module of bitar::chunker::rolling_hash).
//!
//! Oracle: the *rule* of C09 written without rolling.  For a chunk starting at
//! buffer position 0 over bytes b, with `prev` = the bytes the hasher saw last
//! before this chunk (zeros for a fresh RollSum): the boundary is the least e
//! with max(min,1) <= e <= max such that e == max, or the hash of the trailing
//! window (last w bytes of prev++b[..e]) has all filter bits set; `None` iff
//! there is no such e <= len.  A fresh BuzHash consumes the first w bytes of
//! the stream for priming, so its first hash test is at e = w+1 (documented
//! quirk, part of the rule).
#![allow(dead_code, unused_imports)]
use super::*;
use crate::chunker::FilterBits;
use crate::rolling_hash::buzhash_proofs as bz;
use crate::rolling_hash::rollsum_proofs as rs;
use crate::rolling_hash::{BuzHash, RollSum};

#[derive(Clone, Copy, PartialEq, Eq)]
enum Algo {
    RollSum,
    BuzHash,
}

/// hash of the trailing window ending at `e` (exclusive) over prev ++ data
fn ref_hash<const N: usize, const WMAX: usize>(
    algo: Algo,
    prev: &[u8; WMAX],
    data: &[u8; N],
    tv_prev: &[u32; WMAX],
    tv: &[u32; N],
    w: usize,
    e: usize,
) -> u32 {
    // window element k (0 = oldest) is stream position e - w + k; positions < 0 index into prev from its end
    match algo {
        Algo::RollSum => {
            let mut win = [0u8; WMAX];
            let mut k = 0;
            while k < w {
                let pos = e as isize - w as isize + k as isize;
                win[k] = if pos >= 0 { data[pos as usize] } else { prev[(WMAX as isize + pos) as usize] };
                k += 1;
            }
            rs::closed_form(&win[..w])
        }
        Algo::BuzHash => {
            let mut t = [0u32; WMAX];
            let mut k = 0;
            while k < w {
                let pos = e as isize - w as isize + k as isize;
                t[k] = if pos >= 0 { tv[pos as usize] } else { tv_prev[(WMAX as isize + pos) as usize] };
                k += 1;
            }
            bz::xor_form(&t[..w])
        }
    }
}

struct Cfg {
    w: usize,
    min: usize,
    max: usize,
    bits: u32,
}
fn any_cfg(wmax: usize, maxmax: usize, bitsmax: u32) -> Cfg {
    let w: usize = kani::any();
    let min: usize = kani::any();
    let max: usize = kani::any();
    let bits: u32 = kani::any();
    // "valid configuration" of C09/C01: window >= 1, min <= max, window <= max, bits >= 1
    kani::assume(w >= 1 && w <= wmax && min <= max && w <= max && max >= 1 && max <= maxmax && bits >= 1 && bits <= bitsmax);
    Cfg { w, min, max, bits }
}

/// The reference rule.  `fresh_buz`: the hasher still has to be primed with
/// the first w bytes of the buffer.
fn reference<const N: usize, const WMAX: usize>(
    algo: Algo,
    fresh_buz: bool,
    cfg: &Cfg,
    mask: u32,
    prev: &[u8; WMAX],
    data: &[u8; N],
    tv_prev: &[u32; WMAX],
    tv: &[u32; N],
    len: usize,
) -> Option<usize> {
    let lo = if cfg.min == 0 { 1 } else { cfg.min };
    let mut want: Option<usize> = None;
    let mut e = 1;
    while e <= N {
        if want.is_none() && e <= len && e >= lo && e <= cfg.max {
            let test_allowed = !fresh_buz || e >= cfg.w + 1;
            let hit = if test_allowed {
                let hsum = ref_hash::<N, WMAX>(algo, prev, data, tv_prev, tv, cfg.w, e);
                (hsum | mask) == hsum
            } else {
                false
            };
            if hit || e == cfg.max {
                want = Some(e);
            }
        }
        e += 1;
    }
    want
}

/// run `next` once and compare with the rule; also checks the chunk bytes, the
/// rest of the buffer, that the scan offset is reset at a boundary -- and the
/// POST-STATE: the scan offset after a None is the buffer length, and the
/// hasher is field-for-field the hasher `reference` after being fed (through
/// the real init/input, by `feed_ref`) exactly the bytes the rule says are
/// hashed up to the boundary / the end of the buffer.  This closes the
/// induction: every step starts from a state M and must end in a state M (a
/// chunker that feeds a byte twice, or skips one, across a refill is caught
/// here even when this call's own result is still right).
fn check_next<H: RollingHash, const N: usize>(
    c: &mut RollingHashChunker<H>,
    data: &[u8; N],
    len: usize,
    want: Option<usize>,
    mut reference: H,
    feed_ref: impl Fn(&mut H, usize),
    same: fn(&H, &H) -> bool,
) {
    let mut buf = BytesMut::with_capacity(N);
    buf.extend_from_slice(&data[..len]);
    let got = c.next(&mut buf);
    match (&got, want) {
        (None, None) => {
            assert!(buf.len() == len);
            assert!(c.offset == len, "a call that returns None must have scanned its whole buffer");
            feed_ref(&mut reference, len);
            assert!(same(&c.hasher, &reference), "hasher state after a refill differs from feeding exactly the hashed bytes once");
        }
        (Some(ch), Some(e)) => {
            assert!(ch.len() == e);
            assert!(buf.len() == len - e);
            assert!(c.offset == 0);
            let mut j = 0;
            while j < N {
                if j < e {
                    assert!(ch.data()[j] == data[j]);
                } else if j < len {
                    assert!(buf[j - e] == data[j]);
                }
                j += 1;
            }
            feed_ref(&mut reference, e);
            assert!(same(&c.hasher, &reference), "hasher state at the boundary differs from feeding exactly the hashed bytes once");
        }
        _ => {
            assert!(false, "chunk boundary differs from the rolling-hash rule");
        }
    }
    kani::cover!(matches!(want, Some(e) if e < len));
    kani::cover!(want.is_none() && len > 0);
    std::mem::forget(got);
    std::mem::forget(buf);
    std::mem::forget(reference);
}
/// feed `h` the bytes data[from..upto) that the rule hashes: positions < w of a fresh BuzHash stream (priming) and
/// positions >= fs
fn feed_range<H: RollingHash, const N: usize>(h: &mut H, data: &[u8; N], from: usize, upto: usize, prime_below: usize, fs: usize) {
    let mut j = 0;
    while j < N {
        if j >= from && j < upto && (j < prime_below || j >= fs) {
            if !h.init_done() {
                h.init(data[j]);
            } else {
                h.input(data[j]);
            }
        }
        j += 1;
    }
}

// ---------------------------------------------------------------------------
// BuzHash with a small symbolic table: the 256-entry table makes every lookup
// of a symbolic byte expensive.  Harnesses here restrict bytes to an alphabet
// of A values and give the hasher a table of A *arbitrary* u32 entries, so the
// result holds for every table (in particular the real one) over that alphabet.
// ---------------------------------------------------------------------------
const A: usize = 4;
fn mk_small(w: usize, table: &[u32; A]) -> BuzHash {
    let mut h = bz::mk(w);
    h_set_table(&mut h, table);
    h
}
fn h_set_table(h: &mut BuzHash, table: &[u32; A]) {
    bz::set_table(h, &table[..]);
}
fn lookup<const K: usize>(table: &[u32; A], b: &[u8; K]) -> [u32; K] {
    let mut t = [0u32; K];
    let mut i = 0;
    while i < K {
        t[i] = table[b[i] as usize];
        i += 1;
    }
    t
}
fn any_bytes<const K: usize>(alphabet: usize) -> [u8; K] {
    let d: [u8; K] = kani::any();
    let mut i = 0;
    while i < K {
        kani::assume((d[i] as usize) < alphabet);
        i += 1;
    }
    d
}
fn filter_config(cfg: &Cfg) -> FilterConfig {
    FilterConfig {
        filter_bits: FilterBits(cfg.bits),
        min_chunk_size: cfg.min,
        max_chunk_size: cfg.max,
        window_size: cfg.w,
    }
}

// ---------------------------------------------------------------------------
// C09-1: first chunk of a stream (fresh chunker, one `next`)
// ---------------------------------------------------------------------------
fn first_chunk_rollsum<const N: usize, const WMAX: usize>(maxmax: usize, bitsmax: u32) {
    let data: [u8; N] = kani::any();
    let len: usize = kani::any();
    kani::assume(len <= N);
    let cfg = any_cfg(WMAX, maxmax, bitsmax);
    let fc = filter_config(&cfg);
    let mask = fc.filter_bits.mask();
    let mut c = RollingHashChunker::new(RollSum::new(cfg.w), &fc);
    let zeros = [0u8; WMAX];
    let want = reference::<N, WMAX>(Algo::RollSum, false, &cfg, mask, &zeros, &data, &[0u32; WMAX], &[0u32; N], len);
    kani::cover!(matches!(want, Some(e) if e < cfg.max && e > cfg.min)); // boundary by hash, beyond min
    kani::cover!(matches!(want, Some(e) if e == cfg.max && cfg.max > cfg.min)); // cut at max
    kani::cover!(cfg.min > cfg.w + 1); // skip-ahead path taken
    kani::cover!(cfg.min < cfg.w);
    let hil = if cfg.min >= cfg.w { cfg.min - cfg.w } else { 0 };
    let fs = if hil > 0 { hil - 1 } else { 0 };
    check_next(&mut c, &data, len, want, RollSum::new(cfg.w), |h: &mut RollSum, upto| feed_range(h, &data, 0, upto, 0, fs), rs::same_window);
    std::mem::forget(c);
}
fn first_chunk_buzhash<const N: usize, const WMAX: usize>(cfg: Cfg) {
    let table: [u32; A] = kani::any();
    let data: [u8; N] = any_bytes(A);
    let len: usize = kani::any();
    kani::assume(len <= N);
    let fc = filter_config(&cfg);
    let mask = fc.filter_bits.mask();
    let mut c = RollingHashChunker::new(mk_small(cfg.w, &table), &fc);
    let tv = lookup(&table, &data);
    let want = reference::<N, WMAX>(Algo::BuzHash, true, &cfg, mask, &[0u8; WMAX], &data, &[0u32; WMAX], &tv, len);
    kani::cover!(data[cfg.w] == 0 && data[cfg.w - 1] != 0 && len > cfg.w + 1); // 0x00 right after priming
    let hil = if cfg.min >= cfg.w { cfg.min - cfg.w } else { 0 };
    let fs0 = if hil > 0 { hil - 1 } else { 0 };
    let fs = if fs0 > cfg.w { fs0 } else { cfg.w };
    let w = cfg.w;
    check_next(&mut c, &data, len, want, mk_small(cfg.w, &table), |h: &mut BuzHash, upto| feed_range(h, &data, 0, upto, w, fs), bz::same_fields);
    std::mem::forget(c);
}
#[kani::proof]
#[kani::unwind(10)]
fn c09_rule_first_chunk_rollsum() {
    first_chunk_rollsum::<8, 3>(6, 3);
}
#[kani::proof]
#[kani::unwind(12)]
fn c09_rule_first_chunk_rollsum_big() {
    first_chunk_rollsum::<10, 4>(8, 4);
}
/// symbolic filter bits, concrete (w, min, max): a symbolic window size makes
/// every BuzHash harness run out of memory (symbolic-size ring, rotate amount,
/// index wrap), so the configuration grid is instantiated by macro.
fn cfg_bits(w: usize, min: usize, max: usize) -> Cfg {
    let bits: u32 = kani::any();
    kani::assume(bits >= 1 && bits <= 3);
    Cfg { w, min, max, bits }
}
macro_rules! buz_grid {
    ($( ($w:expr, $min:expr, $max:expr, $first:ident, $mid:ident, $fmid:ident) ),* $(,)?) => {
        $(
            #[kani::proof]
            #[kani::unwind(10)]
            fn $first() {
                first_chunk_buzhash::<8, 3>(cfg_bits($w, $min, $max));
            }
            #[kani::proof]
            #[kani::unwind(10)]
            fn $mid() {
                mid_chunk_buzhash::<7, 3>(cfg_bits($w, $min, $max));
            }
            #[kani::proof]
            #[kani::unwind(10)]
            fn $fmid() {
                first_chunk_mid_buzhash::<7, 3>(cfg_bits($w, $min, $max));
            }
        )*
    };
}
include!("rh_chunker_grid.rs");

// ---------------------------------------------------------------------------
// C09-2/3: the general step.  The chunker is in an arbitrary *mid-chunk*
// state: `o` bytes of the current chunk were already scanned by earlier
// `next` calls that returned None on a shorter buffer (o = 0: just cut, i.e.
// "later chunk").  Facts about that state, from reading `next`: a None call
// consumes its whole buffer (offset == its length), has fed the hasher the
// bytes [feed_start, o) with feed_start = max(hash_input_limit - 1, 0), and
// found no boundary <= o.  The hasher state is injected by feeding the last w
// bytes of prev ++ buf[feed_start..o) through the real `input` (ring offset 0;
// the C10 lemma makes the ring offset irrelevant).  One real `next` on the
// longer buffer must give the rule's answer => refill independence, and with
// o = 0 the rule for every chunk after the first.
// ---------------------------------------------------------------------------
fn mid_window<const N: usize, const WMAX: usize>(prev: &[u8; WMAX], data: &[u8; N], w: usize, fs: usize, o: usize) -> [u8; WMAX] {
    // last w bytes of prev ++ data[fs..o], right-aligned in the result
    let fed = if o > fs { o - fs } else { 0 };
    let mut win = [0u8; WMAX];
    let mut k = 0;
    while k < WMAX {
        // element k counts from the oldest of WMAX; distance from the end: WMAX - k
        let back = WMAX - k; // 1..=WMAX
        win[k] = if back <= fed { data[o - back] } else { prev[WMAX - (back - fed)] };
        k += 1;
    }
    let _ = w;
    win
}
fn mid_chunk_rollsum<const N: usize, const WMAX: usize>(maxmax: usize, bitsmax: u32) {
    let data: [u8; N] = kani::any();
    let prev: [u8; WMAX] = kani::any();
    let len: usize = kani::any();
    let o: usize = kani::any();
    kani::assume(len <= N && o <= len);
    let cfg = any_cfg(WMAX, maxmax, bitsmax);
    kani::assume(o < cfg.max);
    let fc = filter_config(&cfg);
    let mask = fc.filter_bits.mask();
    let hil = if cfg.min >= cfg.w { cfg.min - cfg.w } else { 0 };
    let fs = if hil > 0 { hil - 1 } else { 0 };
    // previous calls found no boundary in the first o bytes
    let none_before = reference::<N, WMAX>(Algo::RollSum, false, &cfg, mask, &prev, &data, &[0u32; WMAX], &[0u32; N], o);
    kani::assume(none_before.is_none());
    let win = mid_window::<N, WMAX>(&prev, &data, cfg.w, fs, o);
    let mut hasher = RollSum::new(cfg.w);
    let mut k = 0;
    while k < WMAX {
        if k + cfg.w >= WMAX {
            hasher.input(win[k]);
        }
        k += 1;
    }
    // an identical second hasher is the reference for the post-state
    let mut refh = RollSum::new(cfg.w);
    let mut k = 0;
    while k < WMAX {
        if k + cfg.w >= WMAX {
            refh.input(win[k]);
        }
        k += 1;
    }
    let mut c = RollingHashChunker::new(hasher, &fc);
    c.offset = o;
    let want = reference::<N, WMAX>(Algo::RollSum, false, &cfg, mask, &prev, &data, &[0u32; WMAX], &[0u32; N], len);
    kani::cover!(o == 0 && matches!(want, Some(e) if e < cfg.w)); // later chunk: window reaches into the previous chunk
    kani::cover!(o > 0 && o < fs); // refill while still skipping towards min
    kani::cover!(o > fs && o + 1 < cfg.min); // refill while feeding the pre-min window
    kani::cover!(o >= cfg.min && o > 0 && matches!(want, Some(e) if e > o + 1 && e < cfg.max)); // refill mid-scan, boundary by hash later
    let from = if o > fs { o } else { fs };
    check_next(&mut c, &data, len, want, refh, |h: &mut RollSum, upto| feed_range(h, &data, from, upto, 0, fs), rs::same_window);
    std::mem::forget(c);
}
fn mid_chunk_buzhash<const N: usize, const WMAX: usize>(cfg: Cfg) {
    let table: [u32; A] = kani::any();
    let data: [u8; N] = any_bytes(A);
    let prev: [u8; WMAX] = any_bytes(A);
    let len: usize = kani::any();
    let o: usize = kani::any();
    kani::assume(len <= N && o <= len);
    kani::assume(o < cfg.max);
    let fc = filter_config(&cfg);
    let mask = fc.filter_bits.mask();
    let hil = if cfg.min >= cfg.w { cfg.min - cfg.w } else { 0 };
    let fs = if hil > 0 { hil - 1 } else { 0 };
    let tv = lookup(&table, &data);
    let tvp = lookup(&table, &prev);
    let none_before = reference::<N, WMAX>(Algo::BuzHash, false, &cfg, mask, &prev, &data, &tvp, &tv, o);
    kani::assume(none_before.is_none());
    let win = mid_window::<N, WMAX>(&prev, &data, cfg.w, fs, o);
    let mut hasher = mk_small(cfg.w, &table);
    let mut k = 0;
    while k < WMAX {
        if k + cfg.w >= WMAX {
            bz::feed(&mut hasher, win[k]);
        }
        k += 1;
    }
    assert!(hasher.init_done());
    let refh = hasher.clone();
    let mut c = RollingHashChunker::new(hasher, &fc);
    c.offset = o;
    let want = reference::<N, WMAX>(Algo::BuzHash, false, &cfg, mask, &prev, &data, &tvp, &tv, len);
    kani::cover!(o == 0 && want.is_some());
    kani::cover!(o > 0 && want.is_some());
    let from = if o > fs { o } else { fs };
    check_next(&mut c, &data, len, want, refh, |h: &mut BuzHash, upto| feed_range(h, &data, from, upto, 0, fs), bz::same_fields);
    std::mem::forget(c);
}
#[kani::proof]
#[kani::unwind(10)]
fn c09_rule_mid_chunk_rollsum() {
    mid_chunk_rollsum::<7, 3>(6, 3);
}
#[kani::proof]
#[kani::unwind(8)]
fn c09_rule_mid_chunk_rollsum_small() {
    mid_chunk_rollsum::<6, 2>(5, 2);
}
#[kani::proof]
#[kani::unwind(8)]
fn c09_rule_first_chunk_rollsum_small() {
    first_chunk_rollsum::<6, 2>(5, 2);
}

/// Fresh BuzHash stream, refill before/while/after priming: the hasher state
/// is established exactly as `next` does it (init over [0, min(o,w)), input
/// over [max(w, feed_start), o)).
fn first_chunk_mid_buzhash<const N: usize, const WMAX: usize>(cfg: Cfg) {
    let table: [u32; A] = kani::any();
    let data: [u8; N] = any_bytes(A);
    let len: usize = kani::any();
    let o: usize = kani::any();
    kani::assume(len <= N && o <= len);
    kani::assume(o < cfg.max);
    let fc = filter_config(&cfg);
    let mask = fc.filter_bits.mask();
    let hil = if cfg.min >= cfg.w { cfg.min - cfg.w } else { 0 };
    let fs0 = if hil > 0 { hil - 1 } else { 0 };
    let fs = if fs0 > cfg.w { fs0 } else { cfg.w };
    let tv = lookup(&table, &data);
    let none_before = reference::<N, WMAX>(Algo::BuzHash, true, &cfg, mask, &[0u8; WMAX], &data, &[0u32; WMAX], &tv, o);
    kani::assume(none_before.is_none());
    let mut hasher = mk_small(cfg.w, &table);
    let mut j = 0;
    while j < N {
        if j < o && (j < cfg.w || j >= fs) {
            bz::feed(&mut hasher, data[j]);
        }
        j += 1;
    }
    let refh = hasher.clone();
    let mut c = RollingHashChunker::new(hasher, &fc);
    c.offset = o;
    let want = reference::<N, WMAX>(Algo::BuzHash, true, &cfg, mask, &[0u8; WMAX], &data, &[0u32; WMAX], &tv, len);
    kani::cover!(o > 0 && want.is_some());
    let w = cfg.w;
    check_next(&mut c, &data, len, want, refh, |h: &mut BuzHash, upto| feed_range(h, &data, o, upto, w, fs), bz::same_fields);
    std::mem::forget(c);
}

// ---------------------------------------------------------------------------
// C10-2: chunker-level resynchronisation step (BuzHash; XOR/rotate compare
// cheaply.  For RollSum the same conclusion follows from c09_rule_mid_chunk_*
// with o = 0 -- the result is a function of the last w bytes and the buffer
// -- plus the C10 hasher lemma; a direct two-instance comparison is an
// adder-chain equivalence the SAT back end does not finish).
// Two chunkers whose hashers saw different histories ending in the same w
// bytes, both just cut (offset 0), see the same buffer: identical result.
// ---------------------------------------------------------------------------
fn chunker_resync_step_buzhash(cfg: Cfg) {
    const N: usize = 6;
    let table: [u32; A] = kani::any();
    let fc = filter_config(&cfg);
    // histories: P1 (4 bytes) + common (3 bytes)  vs  common only (primes inside the common data)
    let p1: [u8; 4] = any_bytes(A);
    let common: [u8; 3] = any_bytes(A);
    let mut ha = mk_small(cfg.w, &table);
    let mut hb = mk_small(cfg.w, &table);
    let mut i = 0;
    while i < 4 {
        bz::feed(&mut ha, p1[i]);
        i += 1;
    }
    let mut i = 0;
    while i < 3 {
        bz::feed(&mut ha, common[i]);
        bz::feed(&mut hb, common[i]);
        i += 1;
    }
    assert!(ha.init_done() && hb.init_done());
    let mut a = RollingHashChunker::new(ha, &fc);
    let mut b = RollingHashChunker::new(hb, &fc);
    let data: [u8; N] = any_bytes(A);
    let len: usize = kani::any();
    kani::assume(len <= N);
    let ra = step(&mut a, &data[..len]);
    let rb = step(&mut b, &data[..len]);
    assert!(ra == rb);
    assert!(a.offset == b.offset);
    assert!(a.hasher.sum() == b.hasher.sum());
    kani::cover!(ra.is_some());
    kani::cover!(common[2] != 0 && data[0] == 0 && data[1] == 0 && data[2] == 0 && len > 3);
    std::mem::forget(a);
    std::mem::forget(b);
}
#[kani::proof]
#[kani::unwind(10)]
fn c10_chunker_resync_step_buzhash_w2_m1_x4() {
    chunker_resync_step_buzhash(cfg_bits(2, 1, 4));
}
#[kani::proof]
#[kani::unwind(10)]
fn c10_chunker_resync_step_buzhash_w3_m0_x6() {
    chunker_resync_step_buzhash(cfg_bits(3, 0, 6));
}
#[kani::proof]
#[kani::unwind(10)]
fn c10_chunker_resync_step_buzhash_w3_m5_x6() {
    chunker_resync_step_buzhash(cfg_bits(3, 5, 6));
}
#[kani::proof]
#[kani::unwind(10)]
fn c10_chunker_resync_step_buzhash_w1_m2_x5() {
    chunker_resync_step_buzhash(cfg_bits(1, 2, 5));
}

/// `Chunker::next` without the BytesMut: the same steps on a slice (used by
/// the two-instance harness above; `c09_next_equals_slice_step` ties it to the
/// real `next`).
fn step<H: RollingHash>(c: &mut RollingHashChunker<H>, buf: &[u8]) -> Option<usize> {
    while !c.hasher.init_done() && c.offset < buf.len() {
        c.hasher.init(buf[c.offset]);
        c.offset += 1;
    }
    c.skip_min_chunk(buf);
    if c.scan_for_boundary(buf) {
        let offset = c.offset;
        c.offset = 0;
        return Some(offset);
    }
    None
}
fn next_equals_slice_step(cfg: Cfg) {
    let table: [u32; A] = kani::any();
    let fc = filter_config(&cfg);
    let mut a = RollingHashChunker::new(mk_small(cfg.w, &table), &fc);
    let mut b = RollingHashChunker::new(mk_small(cfg.w, &table), &fc);
    let data: [u8; 7] = any_bytes(A);
    let len: usize = kani::any();
    kani::assume(len <= 7);
    let rb = step(&mut b, &data[..len]);
    let mut buf = BytesMut::with_capacity(7);
    buf.extend_from_slice(&data[..len]);
    let ra = a.next(&mut buf).map(|c| {
        let n = c.len();
        std::mem::forget(c);
        n
    });
    assert!(ra == rb);
    assert!(a.offset == b.offset);
    kani::cover!(ra.is_some());
    kani::cover!(ra.is_none() && len > 0);
    std::mem::forget(buf);
    std::mem::forget(a);
    std::mem::forget(b);
}
#[kani::proof]
#[kani::unwind(10)]
fn c09_next_equals_slice_step_w2_m1_x4() {
    next_equals_slice_step(cfg_bits(2, 1, 4));
}
#[kani::proof]
#[kani::unwind(10)]
fn c09_next_equals_slice_step_w3_m5_x6() {
    next_equals_slice_step(cfg_bits(3, 5, 6));
}

/// unit hasher for harnesses that only exercise the chunker's own arithmetic (proofs/archive.rs)
impl RollingHash for () {
    fn init_done(&self) -> bool {
        true
    }
    fn init(&mut self, _value: u8) {}
    fn input(&mut self, _value: u8) {}
    fn sum(&self) -> u32 {
        0
    }
}
