//! Proofs about `HttpRangeRequest` (child module of
//! bitar::archive_reader::http_range_request).  The server is the scripted
//! reqwest stub (kani/stubs/reqwest); `format!` is kept unrendered.
//!
//! Multi-poll runs multiply the harness-wide unwind bound through the nested
//! loops of poll_read / poll_read_fail and do not finish, so the retry/resume
//! property is decomposed into ONE poll from an arbitrary injected state that
//! satisfies the invariant
//!   R:  offset + size == END (the end of the range originally asked for) and
//!       an open body stream was requested for [its first byte, END-1] and has
//!       so far sent exactly (offset - its first byte) bytes.
//! Each step re-establishes R, so the claims hold for every number of polls.
#![allow(dead_code, unused_imports, static_mut_refs)]
use super::*;
use crate::verif_support::{bytes_match, noop_cx};
use reqwest::{content, logged, n_requests, CONTENT, MAX_FRAG, MAX_REQ};
use tokio::time::{LAST_SLEEP_SECS, SLEEP_CALLS};

// ---------------------------------------------------------------------------
// hook used by ChunkReader-level harnesses (proofs/http_reader.rs): when
// SCRIPTED is on, `poll_read` answers from this script instead of running the
// state machine (the mirror generator inserts the call under cfg(kani)).
// The script honours the contract established below: fragments are the next
// bytes of the requested range, never beyond it.
// ---------------------------------------------------------------------------
pub(crate) static mut SCRIPTED: bool = false;
/// per call: 0 = clean end (None), 1..=8 = that many bytes, 9 = Pending, 10 = Err
pub(crate) static mut SCRIPT: [u8; 4] = [9; 4];
pub(crate) static mut SCRIPT_POS: usize = 0;
pub(crate) static mut SCRIPT_MISBEHAVE: bool = false;
/// when set, fragments are served from SYM_CONTENT (bytes filled in by the harness, usually symbolic) instead of
/// the fixed file
pub(crate) static mut USE_SYM_CONTENT: bool = false;
pub(crate) static mut SYM_CONTENT: [u8; 32] = [0; 32];
pub(crate) static mut FIRST_POLLED: (u64, u64, u32, u64) = (0, 0, 0, 0);
pub(crate) fn scripted_poll(r: &mut HttpRangeRequest) -> Option<Poll<Option<Result<Bytes, HttpReaderError>>>> {
    if !unsafe { SCRIPTED } {
        return None;
    }
    let k = unsafe { SCRIPT_POS };
    let a = if k < 4 { unsafe { SCRIPT[k] } } else { 9 };
    unsafe {
        SCRIPT_POS = k + 1;
        if k == 0 {
            // what the first polled request looks like (harnesses that cannot reach into an opaque stream)
            FIRST_POLLED = peek(r);
        }
    }
    Some(match a {
        0 => Poll::Ready(None),
        9 => Poll::Pending,
        10 => Poll::Ready(Some(Err(HttpReaderError::UnexpectedEnd))), // any error value; callers only forward it
        n => {
            let mut n = n as u64;
            if !unsafe { SCRIPT_MISBEHAVE } && n > r.size {
                n = r.size;
            }
            if n == 0 {
                return Some(Poll::Ready(None));
            }
            let a = r.offset as usize;
            r.offset += n;
            r.size = r.size.wrapping_sub(n);
            if unsafe { USE_SYM_CONTENT } {
                Poll::Ready(Some(Ok(Bytes::from_static(unsafe { &SYM_CONTENT[a..a + n as usize] }))))
            } else {
                Poll::Ready(Some(Ok(Bytes::from_static(&CONTENT[a..a + n as usize]))))
            }
        }
    })
}
pub(crate) fn peek(r: &HttpRangeRequest) -> (u64, u64, u32, u64) {
    (r.offset, r.size, r.retry_count, r.retry_delay.as_secs())
}

fn any_reply(k: usize, frag_max: u8) {
    unsafe {
        reqwest::CONNECT_FAIL[k] = kani::any();
        reqwest::END_ERR[k] = kani::any();
        let f: [u8; MAX_FRAG] = kani::any();
        kani::assume(f[0] <= frag_max && f[1] <= frag_max && f[2] <= frag_max);
        reqwest::FRAGS[k] = f;
    }
}
fn builder() -> reqwest::RequestBuilder {
    reqwest::Client::new().get(reqwest::Url(()))
}

// ---------------------------------------------------------------------------
// C07-4 / C08: the Range header of a request issued from state Init, full width
// ---------------------------------------------------------------------------
#[kani::proof]
#[kani::unwind(4)]
fn c07_range_header_step() {
    let offset: u64 = kani::any();
    let size: u64 = kani::any();
    // documented precondition: a non-empty range that fits in u64
    kani::assume(size >= 1 && offset <= u64::MAX - size);
    unsafe {
        reqwest::SEND_PENDING[0] = true; // stop right after the request was issued
    }
    let mut req = HttpRangeRequest::new(builder(), offset, size);
    let mut cx = noop_cx();
    let r = req.poll_read(&mut cx);
    assert!(matches!(r, Poll::Pending));
    // the request is in flight; let it complete to read the log (empty body)
    let r2 = req.poll_read(&mut cx);
    assert!(matches!(r2, Poll::Ready(None)));
    assert!(n_requests() == 1);
    let (first, last) = logged(0);
    assert!(first == offset);
    assert!(last == offset + size - 1);
    kani::cover!(size == 1);
    kani::cover!(offset == 0 && size == u64::MAX);
    std::mem::forget(req);
}

// ---------------------------------------------------------------------------
// C08-1a: one poll from state Init (fresh request, or re-issue after a
// failure): arbitrary progress so far, arbitrary retry budget, the next
// `budget+1` replies arbitrary.
// ---------------------------------------------------------------------------
fn init_step(max_budget: u32) {
    let orig: u64 = kani::any();
    let done: u64 = kani::any(); // bytes already delivered by earlier polls
    let size: u64 = kani::any(); // bytes still missing
    kani::assume(orig < 8 && done <= 4 && size >= 1 && size <= 5);
    let offset = orig + done;
    let end = offset + size;
    let budget: u32 = kani::any();
    kani::assume(budget <= max_budget);
    let delay: u64 = kani::any();
    kani::assume(delay <= 5);
    any_reply(0, 6);
    any_reply(1, 6);
    if max_budget >= 2 {
        any_reply(2, 6);
    }
    let mut req = HttpRangeRequest::new(builder(), offset, size).retry(budget, Duration::from_secs(delay));
    let mut cx = noop_cx();
    let r = req.poll_read(&mut cx);
    let n = n_requests();
    // every request of this poll asks for exactly the missing part: resume at the first byte not yet received
    assert!(n >= 1 && n as u32 <= budget + 1);
    let (f0, l0) = logged(0);
    assert!(f0 == offset && l0 == end - 1);
    if n >= 2 {
        let (f, l) = logged(1);
        assert!(f == offset && l == end - 1);
    }
    if n >= 3 {
        let (f, l) = logged(2);
        assert!(f == offset && l == end - 1);
    }
    // one failure consumed per extra request, one sleep of the configured delay per retry
    assert!(req.retry_count == budget - (n as u32 - 1));
    assert!(unsafe { SLEEP_CALLS } == n - 1);
    if n > 1 {
        assert!(unsafe { LAST_SLEEP_SECS } == delay);
    }
    match r {
        Poll::Ready(Some(Ok(item))) => {
            let k = item.len() as u64;
            assert!(k >= 1 && k <= size);
            assert!(bytes_match(&item[..], &CONTENT[..], offset as usize));
            // R again
            assert!(req.offset == offset + k && req.size == size - k);
            kani::cover!(n as u32 == max_budget + 1); // delivered after max_budget retries
            kani::cover!(k == size);
            std::mem::forget(item);
        }
        Poll::Ready(Some(Err(e))) => {
            // surfaced only when the budget is used up
            assert!(n as u32 == budget + 1 && req.retry_count == 0);
            assert!(req.offset == offset && req.size == size);
            kani::cover!(budget == max_budget);
            kani::cover!(budget == 0);
            std::mem::forget(e);
        }
        Poll::Ready(None) => {
            // clean end of an empty body: reported as end of stream, nothing delivered
            assert!(req.offset == offset && req.size == size);
            kani::cover!(n == 2);
        }
        Poll::Pending => assert!(false, "nothing in this script is pending"),
    }
    std::mem::forget(req);
}
#[kani::proof]
#[kani::unwind(6)]
fn c08_range_request_init_step() {
    init_step(2);
}
#[kani::proof]
#[kani::unwind(5)]
fn c08_range_request_init_step_b1() {
    init_step(1);
}

// ---------------------------------------------------------------------------
// C08-1b: one poll from state Stream (body in progress): the open response
// was requested at `first` and has sent offset-first bytes; rest of its
// script arbitrary (more fragments / clean end / error), followed by
// arbitrary replies to re-requests.
// ---------------------------------------------------------------------------
#[kani::proof]
#[kani::unwind(6)]
fn c08_range_request_stream_step() {
    let first: u64 = kani::any();
    let sent: u64 = kani::any();
    let size: u64 = kani::any();
    // size >= 1: the chunk reader never polls a request that has nothing missing (it drops the request when
    // the last chunk of the run has been served, see c07_serve_chunk_step)
    kani::assume(first < 8 && sent <= 4 && size >= 1 && size <= 5);
    let offset = first + sent;
    let end = offset + size;
    let budget: u32 = kani::any();
    kani::assume(budget <= 1);
    // the rest of the open response
    let f: [u8; MAX_FRAG] = kani::any();
    kani::assume(f[0] <= 6 && f[1] <= 6 && f[2] <= 6);
    let end_err: bool = kani::any();
    let resp = reqwest::Response::inject(first, end - 1, sent, f, end_err, false);
    any_reply(0, 6);
    let mut req = HttpRangeRequest::new(builder(), offset, size).retry(budget, Duration::from_secs(1));
    req.state = RequestState::Stream(Box::new(resp.bytes_stream()));
    let mut cx = noop_cx();
    let r = req.poll_read(&mut cx);
    let n = n_requests();
    assert!(n as u32 <= budget);
    if n >= 1 {
        // a re-request after a mid-body failure resumes at the first byte not yet received
        let (f0, l0) = logged(0);
        assert!(f0 == offset && l0 == end - 1);
        assert!(size >= 1);
    }
    match r {
        Poll::Ready(Some(Ok(item))) => {
            let k = item.len() as u64;
            assert!(k >= 1 && k <= size);
            assert!(bytes_match(&item[..], &CONTENT[..], offset as usize));
            assert!(req.offset == offset + k && req.size == size - k);
            kani::cover!(n == 1); // delivered by the resumed request
            kani::cover!(n == 0 && k == size);
            std::mem::forget(item);
        }
        Poll::Ready(Some(Err(e))) => {
            assert!(req.retry_count == 0 && n as u32 == budget);
            assert!(req.offset == offset && req.size == size);
            std::mem::forget(e);
        }
        Poll::Ready(None) => {
            assert!(req.offset == offset && req.size == size);
            kani::cover!(size > 0); // body ended early: the caller maps this to UnexpectedEnd
        }
        Poll::Pending => assert!(false),
    }
    std::mem::forget(req);
}

// ---------------------------------------------------------------------------
// C08-1c: Pending from the transport leaves the request untouched
// ---------------------------------------------------------------------------
fn pending_step(send_pending: bool, frag_pending: bool) {
    let offset: u64 = kani::any();
    let size: u64 = kani::any();
    kani::assume(offset < 8 && size >= 1 && size <= 5);
    unsafe {
        reqwest::SEND_PENDING[0] = send_pending;
        reqwest::FRAG_PENDING[0] = [frag_pending, false, false];
        reqwest::FRAGS[0] = [2, 0, 0];
    }
    let mut req = HttpRangeRequest::new(builder(), offset, size).retry(1, Duration::from_secs(1));
    let mut cx = noop_cx();
    // first poll: Pending, nothing changed
    let r = req.poll_read(&mut cx);
    assert!(matches!(r, Poll::Pending));
    assert!(req.offset == offset && req.size == size && req.retry_count == 1);
    // second poll: progress with the same request (no duplicate request) -- or the second Pending of `both`
    let r2 = req.poll_read(&mut cx);
    let r3 = if send_pending && frag_pending {
        assert!(matches!(r2, Poll::Pending));
        assert!(req.offset == offset && req.size == size && req.retry_count == 1);
        req.poll_read(&mut cx)
    } else {
        r2
    };
    match r3 {
        Poll::Ready(Some(Ok(item))) => {
            assert!(bytes_match(&item[..], &CONTENT[..], offset as usize));
            assert!(item.len() as u64 == if size < 2 { size } else { 2 });
            assert!(n_requests() == 1);
            assert!(req.offset == offset + item.len() as u64 && req.size == size - item.len() as u64);
            kani::cover!(true);
            std::mem::forget(item);
        }
        _ => assert!(false, "the pending request must deliver on the next poll"),
    }
    assert!(unsafe { SLEEP_CALLS } == 0);
    std::mem::forget(req);
}
#[kani::proof]
#[kani::unwind(5)]
fn c08_range_request_pending_step_send() {
    pending_step(true, false);
}
#[kani::proof]
#[kani::unwind(5)]
fn c08_range_request_pending_step_frag() {
    pending_step(false, true);
}
#[kani::proof]
#[kani::unwind(5)]
fn c08_range_request_pending_step_both() {
    pending_step(true, true);
}

// ---------------------------------------------------------------------------
// C08-3: `single()` (used by read_at): retried from the ORIGINAL offset (no
// partial progress exists: the body is collected whole), budget respected.
// ---------------------------------------------------------------------------
#[kani::proof]
#[kani::unwind(6)]
fn c08_single_retries() {
    let offset: u64 = kani::any();
    let size: u64 = kani::any();
    kani::assume(offset < 16 && size >= 1 && size <= 5);
    let retries: u32 = kani::any();
    kani::assume(retries <= 2);
    any_reply(0, 6);
    any_reply(1, 6);
    any_reply(2, 6);
    let req = HttpRangeRequest::new(builder(), offset, size).retry(retries, Duration::from_secs(2));
    let mut cx = noop_cx();
    let fut = req.single();
    tokio::pin!(fut);
    let r = match fut.as_mut().poll(&mut cx) {
        Poll::Ready(r) => r,
        Poll::Pending => {
            assert!(false, "single() pending with a ready server");
            return;
        }
    };
    let n = n_requests();
    assert!(n >= 1 && n as u32 <= retries + 1);
    let (f0, l0) = logged(0);
    assert!(f0 == offset && l0 == offset + size - 1);
    if n >= 2 {
        let (f, l) = logged(1);
        assert!(f == offset && l == offset + size - 1);
    }
    if n >= 3 {
        let (f, l) = logged(2);
        assert!(f == offset && l == offset + size - 1);
    }
    match r {
        Ok(b) => {
            // body of the last request: a prefix of the range (the caller checks the length)
            assert!(b.len() as u64 <= size);
            assert!(bytes_match(&b[..], &CONTENT[..], offset as usize));
            kani::cover!(n == 3 && b.len() as u64 == size);
            std::mem::forget(b);
        }
        Err(e) => {
            assert!(n as u32 == retries + 1);
            kani::cover!(retries == 2);
            std::mem::forget(e);
        }
    }
    assert!(unsafe { SLEEP_CALLS } + 1 == n);
}

// ---------------------------------------------------------------------------
// C15-6: a misbehaving server (more bytes than asked for, error after the
// last byte) must never make the request state machine panic.  Kani checks
// every arithmetic overflow / index / unwrap on the way.
// ---------------------------------------------------------------------------
fn server_misbehaves(restrict: u8) {
    let first: u64 = kani::any();
    let sent: u64 = kani::any();
    let size: u64 = kani::any();
    kani::assume(first < 8 && sent <= 4 && size <= 4);
    let offset = first + sent;
    let budget: u32 = kani::any();
    kani::assume(budget <= 1);
    let f: [u8; MAX_FRAG] = kani::any();
    kani::assume(f[0] <= 6 && f[1] == 0);
    let end_err: bool = kani::any();
    match restrict {
        0 => {
            // roles of the listed findings assumed away; everything else arbitrary
            kani::assume(f[0] as u64 <= size); // F6: fragment longer than what is still missing
            kani::assume(size >= 1); // a request with nothing missing is never polled (see c08_range_request_stream_step)
        }
        6 => kani::assume(f[0] as u64 > size && size >= 1),
        _ => {}
    }
    let resp = reqwest::Response::inject(first, offset + size, sent, f, end_err, true);
    any_reply(0, 6);
    let mut req = HttpRangeRequest::new(builder(), offset, size).retry(budget, Duration::from_secs(0));
    req.state = RequestState::Stream(Box::new(resp.bytes_stream()));
    let mut cx = noop_cx();
    let r = req.poll_read(&mut cx);
    match r {
        Poll::Ready(Some(Ok(item))) => {
            kani::cover!(if restrict == 6 { item.len() as u64 > size } else { item.len() as u64 == size && size > 0 });
            std::mem::forget(item);
        }
        Poll::Ready(Some(Err(e))) => std::mem::forget(e),
        _ => {}
    }
    std::mem::forget(req);
}
#[kani::proof]
#[kani::unwind(6)]
fn c15_server_misbehaves_range_request() {
    server_misbehaves(0);
}
/// restricted to the role of finding F6 (server sends more than was asked for)
#[kani::proof]
#[kani::unwind(6)]
fn c15_server_sends_too_much() {
    server_misbehaves(6);
}


/// C15: whatever a server DECLARES about its reply (Content-Length: any value or none) the one-shot read used for the
/// header region (`single`, behind `HttpReader::read_at`) ends in a result -- no panic, no allocation sized by the
/// declaration.  (The unchanged code never looks at the declared length; a change that pre-sizes a buffer from it
/// is stopped here by the capacity check of the allocation.)
#[kani::proof]
#[kani::unwind(6)]
fn c15_single_declared_length_any() {
    let offset: u64 = kani::any();
    let size: u64 = kani::any();
    kani::assume(offset < 16 && size >= 1 && size <= 5);
    any_reply(0, 6);
    unsafe {
        reqwest::CONTENT_LENGTH = kani::any();
    }
    let req = HttpRangeRequest::new(builder(), offset, size);
    let mut cx = noop_cx();
    let fut = req.single();
    tokio::pin!(fut);
    match fut.as_mut().poll(&mut cx) {
        Poll::Ready(r) => {
            kani::cover!(r.is_ok() && unsafe { reqwest::CONTENT_LENGTH } == Some(u64::MAX));
            kani::cover!(r.is_err());
            std::mem::forget(r);
        }
        Poll::Pending => assert!(false, "single() pending with a ready server"),
    }
}
