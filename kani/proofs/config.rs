//! `FilterBits` arithmetic (C09: the mask is 2^bits - 1; C15: untrusted bits).
#![allow(dead_code, unused_imports)]
use super::*;

/// For every documented number of filter bits the mask has exactly the low
/// `bits` bits set (full width, no bound other than the documented range).
#[kani::proof]
fn c09_mask_bits() {
    let bits: u32 = kani::any();
    kani::assume(bits >= 1 && bits <= 31);
    let m = FilterBits::from_bits(bits).mask();
    assert!(m as u64 == (1u64 << bits) - 1);
    assert!(FilterBits::from_bits(bits).bits() == bits);
    kani::cover!(bits == 1);
    kani::cover!(bits == 31);
    kani::cover!(bits == 24);
}

/// `from_size` for every size >= 2 gives the documented rounding: the average
/// target 2^(bits+1) is the size rounded down to a power of two.
#[kani::proof]
fn c09_from_size() {
    let size: u32 = kani::any();
    kani::assume(size >= 4);
    let f = FilterBits::from_size(size);
    let avg = 1u64 << (f.bits() + 1);
    assert!(avg <= size as u64 && (size as u64) < 2 * avg);
    assert!(f.chunk_target_average() as u64 == avg || f.bits() == 31);
    kani::cover!(size == 64 * 1024);
    kani::cover!(size == u32::MAX);
}
