//! Proofs about `BuzHash` (child module of bitar::rolling_hash::buzhash in the
//! mirror crate, so private fields are visible).
#![allow(dead_code, unused_imports)]
use super::*;

/// The seeded table, evaluated at compile time from the source's own table
/// and seed (so harnesses do not have to run the 256-iteration loop of
/// `generate_seeded_table`; `new_equals_literal` ties the two together).
pub(crate) static SEEDED: [u32; 256] = {
    let mut t = [0u32; 256];
    let mut i = 0;
    while i < 256 {
        t[i] = BUZHASH_TABLE[i] ^ BUZHASH_SEED;
        i += 1;
    }
    t
};

/// Same state as `BuzHash::new(window)`, built without the table loop.
pub(crate) fn mk(window: usize) -> BuzHash {
    BuzHash {
        index: 0,
        buf: vec![0; window],
        window,
        hash_sum: 0,
        buzhash_table: SEEDED.to_vec(),
        window_full: false,
        last_input: 0,
        repeated_input: 0,
    }
}

/// Replace the table (harnesses over a small alphabet use a small table of
/// arbitrary values, see proofs/rh_chunker.rs).
pub(crate) fn set_table(h: &mut BuzHash, table: &[u32]) {
    h.buzhash_table = table.to_vec();
}

/// exact field-by-field equality of two hashers with the same window size (<= 8)
pub(crate) fn same_fields(a: &BuzHash, b: &BuzHash) -> bool {
    let w = a.window;
    if b.window != w || a.buf.len() != w || b.buf.len() != w {
        return false;
    }
    let mut ok = a.index == b.index
        && a.hash_sum == b.hash_sum
        && a.window_full == b.window_full
        && a.last_input == b.last_input
        && a.repeated_input == b.repeated_input;
    let mut i = 0;
    while i < w {
        ok &= a.buf[i] == b.buf[i];
        i += 1;
    }
    ok
}

/// Closed form: the hash of a window x_0..x_{w-1} (x_{w-1} newest) is
/// XOR_i rotl(T[x_i], w-1-i).  Does not roll.
pub(crate) fn closed_form(win: &[u8]) -> u32 {
    closed_form_t(&SEEDED[..], win)
}
/// Same, reading the hasher's own copy of the table (an identical array at a
/// different address costs the solver an array-equality argument per lookup;
/// `c09_buz_new_equals_literal` shows the copy equals the seeded table).
pub(crate) fn closed_form_t(table: &[u32], win: &[u8]) -> u32 {
    let w = win.len();
    let mut h = 0u32;
    let mut i = 0;
    while i < w {
        h ^= table[win[i] as usize].rotate_left((w - 1 - i) as u32);
        i += 1;
    }
    h
}

pub(crate) fn feed(h: &mut BuzHash, b: u8) {
    if !h.init_done() {
        h.init(b);
    } else {
        h.input(b);
    }
}

// ---------------------------------------------------------------------------
// Encoder validation (brief: "validate the translator by pushing the repo's
// own test inputs through both"): the closed form reproduces the value the
// repository's unit tests pin, and `new` equals the literal constructor.
// ---------------------------------------------------------------------------
#[kani::proof]
#[kani::unwind(258)]
fn c09_buz_new_equals_literal() {
    let w: usize = kani::any();
    kani::assume(w >= 1 && w <= 4);
    let a = BuzHash::new(w);
    let b = mk(w);
    assert!(a.index == b.index && a.window == b.window && a.hash_sum == b.hash_sum);
    assert!(a.window_full == b.window_full && a.last_input == b.last_input);
    assert!(a.repeated_input == b.repeated_input);
    assert!(a.buf.len() == w && b.buf.len() == w);
    let mut i = 0;
    while i < w {
        assert!(a.buf[i] == 0 && b.buf[i] == 0);
        i += 1;
    }
    assert!(a.buzhash_table.len() == 256);
    let mut i = 0;
    while i < 256 {
        assert!(a.buzhash_table[i] == b.buzhash_table[i]);
        i += 1;
    }
    kani::cover!(w == 4);
    std::mem::forget(a);
    std::mem::forget(b);
}

#[kani::proof]
#[kani::unwind(8)]
fn c09_buz_closed_form_matches_repo_vector() {
    // bitar::rolling_hash::buzhash::tests::first_valid_correct_sum
    assert!(closed_form(&[1, 2, 3, 4, 5]) == 1_406_929_643);
    let mut h = mk(5);
    let d = [1u8, 2, 3, 4, 5];
    let mut i = 0;
    while i < 5 {
        feed(&mut h, d[i]);
        i += 1;
    }
    assert!(h.sum() == 1_406_929_643);
    kani::cover!(h.init_done());
    std::mem::forget(h);
}

// ---------------------------------------------------------------------------
// C10-1 (bounded, from reset): two hashers that saw P1+S and P2+S agree on
// every sum from one window into S on.
// ---------------------------------------------------------------------------
fn window_only_from_reset<const W: usize, const N1: usize, const N2: usize, const S: usize>() {
    // prefix lengths are concrete per instance (a symbolic length makes the
    // ring index symbolic, which CBMC does not finish); contents are symbolic
    let p1: [u8; N1] = kani::any();
    let p2: [u8; N2] = kani::any();
    let s: [u8; S] = kani::any();
    let mut ha = mk(W);
    let mut hb = mk(W);
    let mut i = 0;
    while i < N1 {
        feed(&mut ha, p1[i]);
        i += 1;
    }
    let mut i = 0;
    while i < N2 {
        feed(&mut hb, p2[i]);
        i += 1;
    }
    let mut i = 0;
    while i < S {
        feed(&mut ha, s[i]);
        feed(&mut hb, s[i]);
        if i + 1 >= W {
            // both windows are the last W bytes of S
            assert!(ha.sum() == hb.sum());
        }
        i += 1;
    }
    kani::cover!(s[W] == s[W + 1] && s[W + 1] == s[W + 2]);
    kani::cover!(s[W] != s[W + 1]);
    std::mem::forget(ha);
    std::mem::forget(hb);
}

#[kani::proof]
#[kani::unwind(10)]
fn c10_buz_window_only_w2_p0_p3() {
    window_only_from_reset::<2, 0, 3, 7>();
}
#[kani::proof]
#[kani::unwind(10)]
fn c10_buz_window_only_w3_p0_p4() {
    window_only_from_reset::<3, 0, 4, 8>();
}
#[kani::proof]
#[kani::unwind(10)]
fn c10_buz_window_only_w3_p2_p4() {
    window_only_from_reset::<3, 2, 4, 8>();
}
#[kani::proof]
#[kani::unwind(10)]
fn c10_buz_window_only_w3_p4_p4() {
    window_only_from_reset::<3, 4, 4, 8>();
}
#[kani::proof]
#[kani::unwind(12)]
fn c10_buz_window_only_w4_p1_p6() {
    window_only_from_reset::<4, 1, 6, 10>();
}

// ---------------------------------------------------------------------------
// C10-1' (inductive step, any history): from ANY state satisfying the
// representation invariant INV, one `input(b)` re-establishes INV and the sum
// equals the closed form of the new window.  INV is also established by
// priming (`inv_after_init`).  Together: for every history whatsoever the sum
// is a function of the last `window` bytes -- no bound on stream length.
//
// INV(h, win):  win[0..w] are the last w bytes fed (oldest first)
//   - buf, read in ring order from `index`, is T[win[i]]
//   - hash_sum == closed_form(win)
//   - run counter: let r = repeated_input.
//       r >= w  ==> every win[i] == last_input
//       r <  w  ==> the newest min(r+1, w) bytes of win equal last_input
// ---------------------------------------------------------------------------
/// Counter part of INV.
fn counter_inv(win: &[u8], last_input: u8, repeated_input: usize) -> bool {
    let w = win.len();
    let need = if repeated_input >= w { w } else { repeated_input + 1 };
    let mut ok = true;
    let mut i = 0;
    while i < w {
        if i + need >= w {
            ok &= win[i] == last_input;
        }
        i += 1;
    }
    ok
}
/// XOR_i rotl(t[i], w-1-i) over table *values* (each table lookup of a
/// symbolic byte is expensive for the solver, so harnesses look every byte up
/// once and reason over the values).
pub(crate) fn xor_form(t: &[u32]) -> u32 {
    let w = t.len();
    let mut h = 0u32;
    let mut i = 0;
    while i < w {
        h ^= t[i].rotate_left((w - 1 - i) as u32);
        i += 1;
    }
    h
}
/// Ring part of INV: `t[i]` is the table value of the i-th oldest window byte.
fn ring_inv(h: &BuzHash, t: &[u32]) -> bool {
    let w = h.window;
    if t.len() != w || h.buf.len() != w || h.index >= w || !h.window_full {
        return false;
    }
    let mut ok = true;
    let mut i = 0;
    while i < w {
        let pos = if h.index + i >= w { h.index + i - w } else { h.index + i };
        ok &= h.buf[pos] == t[i];
        i += 1;
    }
    ok && h.hash_sum == xor_form(t)
}
fn inv_holds(h: &BuzHash, win: &[u8]) -> bool {
    // (used where the window bytes are few and looked up once)
    let w = win.len();
    let mut t = [0u32; 8];
    let mut i = 0;
    while i < w {
        t[i] = h.buzhash_table[win[i] as usize];
        i += 1;
    }
    ring_inv(h, &t[..w]) && counter_inv(win, h.last_input, h.repeated_input)
}

fn inductive_step_at<const W: usize>(index: usize) {
    let win: [u8; W] = kani::any();
    let t: [u32; W] = kani::any();
    let mut h = mk(W);
    h.window_full = true;
    h.index = index;
    let mut i = 0;
    while i < W {
        kani::assume(t[i] == h.buzhash_table[win[i] as usize]);
        let pos = if index + i >= W { index + i - W } else { index + i };
        h.buf[pos] = t[i];
        i += 1;
    }
    h.hash_sum = xor_form(&t);
    h.last_input = kani::any();
    h.repeated_input = kani::any();
    kani::assume(h.repeated_input < usize::MAX); // 2^64 equal bytes in a row: outside the claim
    kani::assume(counter_inv(&win, h.last_input, h.repeated_input));
    let b: u8 = kani::any();
    h.input(b);
    let tb = h.buzhash_table[b as usize];
    let mut nw = [0u8; W];
    let mut nt = [0u32; W];
    let mut i = 0;
    while i + 1 < W {
        nw[i] = win[i + 1];
        nt[i] = t[i + 1];
        i += 1;
    }
    nw[W - 1] = b;
    nt[W - 1] = tb;
    assert!(h.sum() == xor_form(&nt));
    assert!(ring_inv(&h, &nt));
    assert!(counter_inv(&nw, h.last_input, h.repeated_input));
    kani::cover!(h.repeated_input >= W); // the run-length shortcut was taken
    kani::cover!(h.repeated_input > 0 && h.repeated_input < W || W == 1); // repeat counted, byte still pushed
    kani::cover!(h.repeated_input == 0);
    std::mem::forget(h);
}
/// One harness per (window, ring index): a conjunction of sub-proofs in one
/// harness is far slower than the sum of its parts, and a symbolic ring index
/// does not finish.
macro_rules! inductive_step {
    ($name:ident, $w:expr, $i:expr) => {
        #[kani::proof]
        #[kani::unwind(10)]
        fn $name() {
            inductive_step_at::<$w>($i);
        }
    };
}
inductive_step!(c10_buz_inductive_step_w1_i0, 1, 0);
inductive_step!(c10_buz_inductive_step_w2_i0, 2, 0);
inductive_step!(c10_buz_inductive_step_w2_i1, 2, 1);
inductive_step!(c10_buz_inductive_step_w3_i0, 3, 0);
inductive_step!(c10_buz_inductive_step_w3_i1, 3, 1);
inductive_step!(c10_buz_inductive_step_w3_i2, 3, 2);
inductive_step!(c10_buz_inductive_step_w4_i0, 4, 0);
inductive_step!(c10_buz_inductive_step_w4_i1, 4, 1);
inductive_step!(c10_buz_inductive_step_w4_i2, 4, 2);
inductive_step!(c10_buz_inductive_step_w4_i3, 4, 3);
inductive_step!(c10_buz_inductive_step_w5_i0, 5, 0);
inductive_step!(c10_buz_inductive_step_w5_i3, 5, 3);
inductive_step!(c10_buz_inductive_step_w8_i0, 8, 0);
inductive_step!(c10_buz_inductive_step_w8_i5, 8, 5);
macro_rules! inductive_step_big {
    ($name:ident, $w:expr, $i:expr) => {
        #[kani::proof]
        #[kani::unwind(68)]
        fn $name() {
            inductive_step_at::<$w>($i);
        }
    };
}
inductive_step_big!(c10_buz_inductive_step_w16_i0, 16, 0);
inductive_step_big!(c10_buz_inductive_step_w16_i9, 16, 9);
inductive_step_big!(c10_buz_inductive_step_w32_i0, 32, 0);
inductive_step_big!(c10_buz_inductive_step_w32_i31, 32, 31);
inductive_step_big!(c10_buz_inductive_step_w64_i0, 64, 0);
inductive_step_big!(c10_buz_inductive_step_w64_i17, 64, 17);

fn inv_after_init<const W: usize>() {
    let p: [u8; W] = kani::any();
    let mut h = mk(W);
    let mut i = 0;
    while i < W {
        assert!(!h.init_done());
        h.init(p[i]);
        i += 1;
    }
    assert!(h.init_done());
    assert!(inv_holds(&h, &p));
    kani::cover!(p[W - 1] == 0);
    kani::cover!(p[W - 1] != 0);
    std::mem::forget(h);
}
#[kani::proof]
#[kani::unwind(6)]
fn c10_buz_inv_after_init_w1() {
    inv_after_init::<1>();
}
#[kani::proof]
#[kani::unwind(6)]
fn c10_buz_inv_after_init_w3() {
    inv_after_init::<3>();
}
#[kani::proof]
#[kani::unwind(7)]
fn c10_buz_inv_after_init_w4() {
    inv_after_init::<4>();
}

