//! `FixedSizeChunker::next` follows the fixed-size rule (C09) and never
//! misbehaves on an untrusted size (C15).
#![allow(dead_code, unused_imports)]
use super::*;

#[kani::proof]
#[kani::unwind(12)]
fn c09_fixed_size_rule() {
    const N: usize = 9;
    let data: [u8; N] = kani::any();
    let len: usize = kani::any();
    let size: usize = kani::any();
    kani::assume(len <= N && size >= 1 && size <= 8);
    let mut c = FixedSizeChunker::new(size);
    let mut buf = BytesMut::with_capacity(N);
    buf.extend_from_slice(&data[..len]);
    let got = c.next(&mut buf);
    match &got {
        None => {
            assert!(len < size);
            assert!(buf.len() == len);
        }
        Some(ch) => {
            assert!(len >= size);
            assert!(ch.len() == size);
            assert!(buf.len() == len - size);
            let mut j = 0;
            while j < N {
                if j < size {
                    assert!(ch.data()[j] == data[j]);
                } else if j < len {
                    assert!(buf[j - size] == data[j]);
                }
                j += 1;
            }
        }
    }
    kani::cover!(got.is_some() && len > size);
    kani::cover!(got.is_none() && len > 0);
    std::mem::forget(got);
    std::mem::forget(buf);
}

/// C10 companion: a fixed-size chunker has no state, so two streams that
/// share a boundary chunk identically afterwards: next() depends on the
/// buffer only.
#[kani::proof]
#[kani::unwind(12)]
fn c10_fixed_size_stateless() {
    const N: usize = 6;
    let data: [u8; N] = kani::any();
    let len: usize = kani::any();
    let size: usize = kani::any();
    kani::assume(len <= N && size >= 1 && size <= 6);
    let mut a = FixedSizeChunker::new(size);
    let mut b = FixedSizeChunker::new(size);
    // a has a history, b is new
    let mut pre = BytesMut::with_capacity(N);
    pre.extend_from_slice(&data[..len]);
    let h = a.next(&mut pre);
    std::mem::forget(h);
    std::mem::forget(pre);
    let mut ba = BytesMut::with_capacity(N);
    ba.extend_from_slice(&data[..len]);
    let mut bb = BytesMut::with_capacity(N);
    bb.extend_from_slice(&data[..len]);
    let ra = a.next(&mut ba).map(|c| {
        let n = c.len();
        std::mem::forget(c);
        n
    });
    let rb = b.next(&mut bb).map(|c| {
        let n = c.len();
        std::mem::forget(c);
        n
    });
    assert!(ra == rb);
    kani::cover!(ra.is_some());
    std::mem::forget(ba);
    std::mem::forget(bb);
}
