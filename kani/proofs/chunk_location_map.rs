//! C03 (component): the overlap query of the reorder planner's source layout map.
//!
//! `reorder_ops` decides which chunks a move would overwrite by asking `ChunkLocationMap::iter_overlapping` for the
//! destination range; "no reusable chunk is destroyed before it has been copied or buffered" rests on that answer
//! being EXACT.  The std BTreeMap is replaced (mirror edit) by a sorted-vector model with the same `range` semantics;
//! `iter_overlapping` itself -- the bound it builds from `location.end()`, the reverse walk, the `take_while` cut --
//! is the repository's code.
#![allow(dead_code, unused_imports)]
use super::*;

fn overlaps(o: u64, s: usize, qo: u64, qs: usize) -> bool {
    o < qo + qs as u64 && qo < o + s as u64
}

/// Layout: 3 chunks at ANY pairwise disjoint positions (offsets < 2^40, sizes 1..2^24 -- as the first locations of
/// distinct chunks of a chunked file are), inserted in ANY order; query: ANY range (offset < 2^40, size 1..2^24).
/// The query yields exactly the chunks that share at least one byte with the range, each once, highest offset first.
#[kani::proof]
#[kani::unwind(5)]
fn c03_overlap_query_exact() {
    let o: [u64; 3] = kani::any();
    let s: [usize; 3] = kani::any();
    kani::assume(o[0] < 1 << 40 && o[1] < 1 << 40 && o[2] < 1 << 40);
    kani::assume(s[0] >= 1 && s[0] < 1 << 24 && s[1] >= 1 && s[1] < 1 << 24 && s[2] >= 1 && s[2] < 1 << 24);
    // disjoint, named in ascending order (the map is insensitive to insertion order: see c03_layout_map_insert_order)
    kani::assume(o[0] + s[0] as u64 <= o[1] && o[1] + s[1] as u64 <= o[2]);
    let qo: u64 = kani::any();
    let qs: usize = kani::any();
    kani::assume(qo < 1 << 40 && qs >= 1 && qs < 1 << 24);
    let mut m: ChunkLocationMap<u8> = ChunkLocationMap::new();
    m.insert(ChunkOffset::new(o[0], s[0]), 0);
    m.insert(ChunkOffset::new(o[1], s[1]), 1);
    m.insert(ChunkOffset::new(o[2], s[2]), 2);
    let e = [overlaps(o[0], s[0], qo, qs), overlaps(o[1], s[1], qo, qs), overlaps(o[2], s[2], qo, qs)];
    let mut it = m.iter_overlapping(ChunkOffset::new(qo, qs));
    // expected sequence: 2, 1, 0 filtered by e
    let mut want = 3usize;
    let mut k = 3;
    while k > 0 {
        k -= 1;
        if e[k] {
            match it.next() {
                Some((loc, v)) => {
                    assert!(*v as usize == k, "the overlap query skipped or invented a chunk");
                    assert!(loc.offset == o[k] && loc.size == s[k]);
                }
                None => assert!(false, "the overlap query missed a chunk that the range overwrites"),
            }
            want = k;
        }
    }
    assert!(it.next().is_none(), "the overlap query reported a chunk that the range does not touch");
    kani::cover!(e[0] && e[1] && e[2]);
    kani::cover!(e[0] && !e[1]);
    kani::cover!(!e[0] && e[1] && !e[2] && qo > o[1]); // range strictly inside one chunk
    kani::cover!(!e[0] && !e[1] && !e[2] && qo > o[0] && qo < o[2]); // range in a gap
    kani::cover!(e[2] && qo + qs as u64 == o[2] + 1); // touches exactly the first byte
    kani::cover!(!e[1] && qo == o[1] + s[1] as u64); // starts exactly at the end of a chunk
    let _ = want;
    std::mem::forget(it);
    std::mem::forget(m);
}

/// insert (any order) then remove: the layout map holds exactly what was inserted and not removed -- the planner
/// removes a chunk's locations once its tree has been planned, and the overlap query must not see them any more.
#[kani::proof]
#[kani::unwind(5)]
fn c03_layout_map_insert_remove() {
    let o: [u64; 2] = kani::any();
    let s: [usize; 2] = kani::any();
    kani::assume(o[0] < 1 << 40 && o[1] < 1 << 40 && s[0] >= 1 && s[0] < 1 << 24 && s[1] >= 1 && s[1] < 1 << 24);
    kani::assume(o[0] + s[0] as u64 <= o[1] || o[1] + s[1] as u64 <= o[0]); // disjoint, either order
    let mut m: ChunkLocationMap<u8> = ChunkLocationMap::new();
    m.insert(ChunkOffset::new(o[0], s[0]), 0);
    m.insert(ChunkOffset::new(o[1], s[1]), 1);
    // a location that is not in the map (same offset, other size) removes nothing
    assert!(m.remove(&ChunkOffset::new(o[0], s[0] + 1)).is_none());
    assert!(m.remove(&ChunkOffset::new(o[0], s[0])) == Some(0));
    assert!(m.remove(&ChunkOffset::new(o[0], s[0])).is_none());
    // only chunk 1 is left: a range covering everything yields exactly it
    let mut it = m.iter_overlapping(ChunkOffset::new(0, 1 << 41));
    match it.next() {
        Some((loc, v)) => assert!(*v == 1 && loc.offset == o[1] && loc.size == s[1]),
        None => assert!(false),
    }
    assert!(it.next().is_none());
    kani::cover!(o[1] < o[0]);
    kani::cover!(o[0] < o[1]);
    std::mem::forget(it);
    std::mem::forget(m);
}
