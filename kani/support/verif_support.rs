//! Helpers shared by the proof modules (mirror crate only, cfg(kani)).
#![allow(dead_code)]
use std::task::{Context, Waker};

/// A task context whose waker does nothing: harnesses poll by hand.
pub fn noop_cx() -> Context<'static> {
    Context::from_waker(Waker::noop())
}

/// Ideal digest used in place of Blake2b-512 (via `#[kani::stub]`): an
/// injective embedding of `data` (<= 62 bytes) into 64 bytes -- byte 0 is the
/// length, bytes 1..=len the data.  "Same hash => same bytes" then holds by
/// construction for full-length hashes; for a hash truncated to L bytes it
/// holds for data of at most L-1 bytes, which harnesses assume explicitly.
pub fn ideal_digest(data: &[u8]) -> crate::HashSum {
    assert!(data.len() <= 62, "ideal digest bound");
    let mut sum = [0u8; 64];
    sum[0] = data.len() as u8;
    let mut i = 0;
    while i < data.len() {
        sum[1 + i] = data[i];
        i += 1;
    }
    crate::HashSum::from(&sum[..])
}

/// `a == file[base .. base + a.len()]` for slices of at most 8 bytes, written
/// without a loop: every loop in a harness is unrolled up to the harness-wide
/// unwind bound, and that bound multiplies through the nested state-machine
/// loops of the code under test.
pub fn bytes_match(a: &[u8], file: &[u8], base: usize) -> bool {
    let n = a.len();
    assert!(n <= 8, "bytes_match bound");
    (n < 1 || a[0] == file[base])
        && (n < 2 || a[1] == file[base + 1])
        && (n < 3 || a[2] == file[base + 2])
        && (n < 4 || a[3] == file[base + 3])
        && (n < 5 || a[4] == file[base + 4])
        && (n < 6 || a[5] == file[base + 5])
        && (n < 7 || a[6] == file[base + 6])
        && (n < 8 || a[7] == file[base + 7])
}

/// `fut.verif_now()`: poll once, the future must be ready.  The mirror generator writes `clone_output_sync.rs`, a
/// copy of `clone_output.rs` in which `async fn` became `fn` and every `.await` became `.verif_now()`: for an
/// environment whose leaf futures are always ready (the harness mocks) that is the same computation, but the
/// functions are no longer coroutines, so their locals are ordinary variables that CBMC constant-propagates.
pub trait VerifNow: std::future::Future + Sized {
    fn verif_now(self) -> Self::Output {
        let mut cx = noop_cx();
        let mut f = std::pin::pin!(self);
        match f.as_mut().poll(&mut cx) {
            std::task::Poll::Ready(v) => v,
            std::task::Poll::Pending => panic!("pending future in an always-ready environment"),
        }
    }
}
impl<F: std::future::Future> VerifNow for F {}

/// stands in for the Blake2b512 object in `Archive::try_init` (mirror only): the checksum comparison is skipped there
/// under cfg(kani), so the value is never looked at
pub struct NoHasher;
impl NoHasher {
    pub fn finalize(self) -> [u8; 64] {
        [0; 64]
    }
}
