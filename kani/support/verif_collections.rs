use std::borrow::Borrow;
use std::hash::{Hash, Hasher};

#[derive(Default, Clone, Copy, PartialEq, Eq, Debug)]
pub struct Fp { acc: u128, n: u8 }
#[derive(Default)]
struct FpHasher(Fp);
impl Hasher for FpHasher {
    // loop-free (every loop pays the harness-wide unwind bound, and a change of the code under test that hashes a
    // longer key must not turn into an "unwinding bound too small" verdict): up to 16 bytes, unrolled
    fn write(&mut self, bytes: &[u8]) {
        let n = bytes.len();
        assert!(n <= 16 && self.0.n as usize + n <= 16, "verif model bound: key feeds > 16 bytes to hasher");
        macro_rules! step {
            ($i:expr) => {
                if n > $i {
                    self.0.acc = (self.0.acc << 8) | bytes[$i] as u128;
                    self.0.n += 1;
                }
            };
        }
        step!(0);
        step!(1);
        step!(2);
        step!(3);
        step!(4);
        step!(5);
        step!(6);
        step!(7);
        step!(8);
        step!(9);
        step!(10);
        step!(11);
        step!(12);
        step!(13);
        step!(14);
        step!(15);
    }
    fn write_usize(&mut self, v: usize) { assert!(v < 256); self.write(&[v as u8]); }
    fn finish(&self) -> u64 { 0 }
}
fn fp<Q: Hash + ?Sized>(q: &Q) -> Fp { let mut h = FpHasher::default(); q.hash(&mut h); h.0 }

/// Fixed four slots, no Vec: `Vec::remove`/`insert` are memmoves with a
/// symbolic length that the solver does not finish.  Insertion order is slot
/// order; a removed entry leaves a hole that iteration skips.
pub const CAP: usize = 4;
#[derive(Clone, Debug)]
pub struct HashMap<K, V> { slots: [Option<(Fp, K, V)>; CAP], used: usize }
impl<K, V> Default for HashMap<K, V> { fn default() -> Self { Self { slots: [None, None, None, None], used: 0 } } }
impl<K: Hash + Eq, V> HashMap<K, V> {
    pub fn new() -> Self { Self::default() }
    fn hit<Q>(&self, i: usize, f: &Fp, q: &Q) -> bool where K: Borrow<Q>, Q: Hash + Eq + ?Sized {
        match &self.slots[i] { Some((ef, ek, _)) => *ef == *f && ek.borrow() == q, None => false }
    }
    // written without loops: every loop pays the harness-wide unwind bound
    fn find<Q>(&self, q: &Q) -> Option<usize> where K: Borrow<Q>, Q: Hash + Eq + ?Sized {
        let f = fp(q);
        if self.hit(0, &f, q) { return Some(0); }
        if self.hit(1, &f, q) { return Some(1); }
        if self.hit(2, &f, q) { return Some(2); }
        if self.hit(3, &f, q) { return Some(3); }
        None
    }
    pub fn len(&self) -> usize {
        self.slots[0].is_some() as usize + self.slots[1].is_some() as usize + self.slots[2].is_some() as usize + self.slots[3].is_some() as usize
    }
    pub fn is_empty(&self) -> bool { self.len() == 0 }
    // slot accesses use constant indices (a symbolic index into an array of large structs is a byte-level
    // update of the whole array for the solver)
    pub fn get<Q>(&self, q: &Q) -> Option<&V> where K: Borrow<Q>, Q: Hash + Eq + ?Sized {
        let f = fp(q);
        if self.hit(0, &f, q) { return self.slots[0].as_ref().map(|e| &e.2); }
        if self.hit(1, &f, q) { return self.slots[1].as_ref().map(|e| &e.2); }
        if self.hit(2, &f, q) { return self.slots[2].as_ref().map(|e| &e.2); }
        if self.hit(3, &f, q) { return self.slots[3].as_ref().map(|e| &e.2); }
        None
    }
    pub fn contains_key<Q>(&self, q: &Q) -> bool where K: Borrow<Q>, Q: Hash + Eq + ?Sized { self.find(q).is_some() }
    pub fn remove<Q>(&mut self, q: &Q) -> Option<V> where K: Borrow<Q>, Q: Hash + Eq + ?Sized {
        let f = fp(q);
        if self.hit(0, &f, q) { return self.slots[0].take().map(|e| e.2); }
        if self.hit(1, &f, q) { return self.slots[1].take().map(|e| e.2); }
        if self.hit(2, &f, q) { return self.slots[2].take().map(|e| e.2); }
        if self.hit(3, &f, q) { return self.slots[3].take().map(|e| e.2); }
        None
    }
    fn push(&mut self, f: Fp, k: K, v: V) -> usize {
        assert!(self.used < CAP, "verif model bound: more than 4 insertions into a model map");
        let i = self.used;
        match i {
            0 => self.slots[0] = Some((f, k, v)),
            1 => self.slots[1] = Some((f, k, v)),
            2 => self.slots[2] = Some((f, k, v)),
            _ => self.slots[3] = Some((f, k, v)),
        }
        self.used += 1;
        i
    }
    fn value_mut(&mut self, i: usize) -> &mut V {
        match i {
            0 => &mut self.slots[0].as_mut().unwrap().2,
            1 => &mut self.slots[1].as_mut().unwrap().2,
            2 => &mut self.slots[2].as_mut().unwrap().2,
            _ => &mut self.slots[3].as_mut().unwrap().2,
        }
    }
    pub fn insert(&mut self, k: K, v: V) -> Option<V> {
        match self.find(&k) {
            Some(i) => Some(std::mem::replace(self.value_mut(i), v)),
            None => { let f = fp(&k); self.push(f, k, v); None }
        }
    }
    pub fn entry(&mut self, k: K) -> Entry<'_, K, V> { Entry { map: self, key: k } }
    pub fn keys(&self) -> impl Iterator<Item = &K> { self.slots.iter().filter_map(|e| e.as_ref().map(|(_, k, _)| k)) }
    pub fn iter(&self) -> impl Iterator<Item = (&K, &V)> { self.slots.iter().filter_map(|e| e.as_ref().map(|(_, k, v)| (k, v))) }
}
pub struct Entry<'a, K, V> { map: &'a mut HashMap<K, V>, key: K }
impl<'a, K: Hash + Eq, V> Entry<'a, K, V> {
    pub fn or_insert(self, default: V) -> &'a mut V {
        let idx = match self.map.find(&self.key) {
            Some(i) => i,
            None => { let f = fp(&self.key); self.map.push(f, self.key, default) }
        };
        self.map.value_mut(idx)
    }
}
impl<K: Hash + Eq, V> FromIterator<(K, V)> for HashMap<K, V> {
    fn from_iter<I: IntoIterator<Item = (K, V)>>(iter: I) -> Self { let mut m = Self::new(); for (k, v) in iter { m.insert(k, v); } m }
}
#[derive(Clone, Debug)]
pub struct HashSet<K> { map: HashMap<K, ()> }
impl<K: Hash + Eq> HashSet<K> {
    pub fn new() -> Self { Self { map: HashMap::new() } }
    pub fn insert(&mut self, k: K) -> bool { self.map.insert(k, ()).is_none() }
    pub fn contains<Q>(&self, q: &Q) -> bool where K: Borrow<Q>, Q: Hash + Eq + ?Sized { self.map.contains_key(q) }
}
impl<K> IntoIterator for HashSet<K> {
    type Item = K;
    type IntoIter = std::iter::FilterMap<std::array::IntoIter<Option<(Fp, K, ())>, CAP>, fn(Option<(Fp, K, ())>) -> Option<K>>;
    fn into_iter(self) -> Self::IntoIter { fn key<K>(e: Option<(Fp, K, ())>) -> Option<K> { e.map(|x| x.1) } self.map.slots.into_iter().filter_map(key::<K>) }
}

// ---------------------------------------------------------------------------
// BTreeMap model: sorted vector.  Only what chunk_location_map.rs uses.
// ---------------------------------------------------------------------------
use std::ops::Bound;
#[derive(Clone, Debug)]
pub struct BTreeMap<K, V> { entries: Vec<(K, V)> }
impl<K, V> Default for BTreeMap<K, V> { fn default() -> Self { Self { entries: Vec::with_capacity(4) } } }
impl<K: Ord, V> BTreeMap<K, V> {
    pub fn new() -> Self { Self::default() }
    pub fn len(&self) -> usize { self.entries.len() }
    fn lower(&self, k: &K) -> usize { // first index with entries[i].0 >= k
        let mut i = 0;
        while i < self.entries.len() && self.entries[i].0 < *k { i += 1; }
        i
    }
    pub fn insert(&mut self, k: K, v: V) -> Option<V> {
        let i = self.lower(&k);
        if i < self.entries.len() && self.entries[i].0 == k {
            Some(std::mem::replace(&mut self.entries[i].1, v))
        } else { self.entries.insert(i, (k, v)); None }
    }
    pub fn remove(&mut self, k: &K) -> Option<V> {
        let i = self.lower(k);
        if i < self.entries.len() && self.entries[i].0 == *k { Some(self.entries.remove(i).1) } else { None }
    }
    pub fn iter(&self) -> impl DoubleEndedIterator<Item = (&K, &V)> { self.entries.iter().map(|(k, v)| (k, v)) }
    pub fn range(&self, r: (Bound<K>, Bound<K>)) -> impl DoubleEndedIterator<Item = (&K, &V)> {
        let lo = match &r.0 {
            Bound::Unbounded => 0,
            Bound::Included(k) => self.lower(k),
            Bound::Excluded(k) => { let i = self.lower(k); if i < self.entries.len() && self.entries[i].0 == *k { i + 1 } else { i } }
        };
        let hi = match &r.1 {
            Bound::Unbounded => self.entries.len(),
            Bound::Excluded(k) => self.lower(k),
            Bound::Included(k) => { let i = self.lower(k); if i < self.entries.len() && self.entries[i].0 == *k { i + 1 } else { i } }
        };
        let hi = if hi < lo { lo } else { hi };
        self.entries[lo..hi].iter().map(|(k, v)| (k, v))
    }
}
