use std::borrow::Borrow;
use std::hash::{Hash, Hasher};

#[derive(Default, Clone, Copy, PartialEq, Eq, Debug)]
pub struct Fp { acc: u128, n: u8 }
#[derive(Default)]
struct FpHasher(Fp);
impl Hasher for FpHasher {
    fn write(&mut self, bytes: &[u8]) {
        for &b in bytes {
            assert!(self.0.n < 16, "verif model bound: key feeds > 16 bytes to hasher");
            self.0.acc = (self.0.acc << 8) | b as u128;
            self.0.n += 1;
        }
    }
    fn write_usize(&mut self, v: usize) { assert!(v < 256); self.write(&[v as u8]); }
    fn finish(&self) -> u64 { 0 }
}
fn fp<Q: Hash + ?Sized>(q: &Q) -> Fp { let mut h = FpHasher::default(); q.hash(&mut h); h.0 }

#[derive(Clone, Debug)]
pub struct HashMap<K, V> { entries: Vec<(Fp, K, V)> }
impl<K, V> Default for HashMap<K, V> { fn default() -> Self { Self { entries: Vec::with_capacity(4) } } }
impl<K: Hash + Eq, V> HashMap<K, V> {
    pub fn new() -> Self { Self::default() }
    fn find<Q>(&self, q: &Q) -> Option<usize> where K: Borrow<Q>, Q: Hash + Eq + ?Sized {
        let f = fp(q);
        let mut i = 0;
        while i < self.entries.len() {
            if self.entries[i].0 == f && self.entries[i].1.borrow() == q { return Some(i); }
            i += 1;
        }
        None
    }
    pub fn len(&self) -> usize { self.entries.len() }
    pub fn is_empty(&self) -> bool { self.entries.is_empty() }
    pub fn get<Q>(&self, q: &Q) -> Option<&V> where K: Borrow<Q>, Q: Hash + Eq + ?Sized { self.find(q).map(|i| &self.entries[i].2) }
    pub fn contains_key<Q>(&self, q: &Q) -> bool where K: Borrow<Q>, Q: Hash + Eq + ?Sized { self.find(q).is_some() }
    pub fn remove<Q>(&mut self, q: &Q) -> Option<V> where K: Borrow<Q>, Q: Hash + Eq + ?Sized { self.find(q).map(|i| self.entries.remove(i).2) }
    pub fn insert(&mut self, k: K, v: V) -> Option<V> {
        match self.find(&k) {
            Some(i) => Some(std::mem::replace(&mut self.entries[i].2, v)),
            None => { let f = fp(&k); self.entries.push((f, k, v)); None }
        }
    }
    pub fn entry(&mut self, k: K) -> Entry<'_, K, V> { Entry { map: self, key: k } }
    pub fn keys(&self) -> impl Iterator<Item = &K> { self.entries.iter().map(|(_, k, _)| k) }
    pub fn iter(&self) -> impl Iterator<Item = (&K, &V)> { self.entries.iter().map(|(_, k, v)| (k, v)) }
}
pub struct Entry<'a, K, V> { map: &'a mut HashMap<K, V>, key: K }
impl<'a, K: Hash + Eq, V> Entry<'a, K, V> {
    pub fn or_insert(self, default: V) -> &'a mut V {
        let idx = match self.map.find(&self.key) {
            Some(i) => i,
            None => { let f = fp(&self.key); self.map.entries.push((f, self.key, default)); self.map.entries.len() - 1 }
        };
        &mut self.map.entries[idx].2
    }
}
impl<K: Hash + Eq, V> FromIterator<(K, V)> for HashMap<K, V> {
    fn from_iter<I: IntoIterator<Item = (K, V)>>(iter: I) -> Self { let mut m = Self::new(); for (k, v) in iter { m.insert(k, v); } m }
}
#[derive(Clone, Debug)]
pub struct HashSet<K> { map: HashMap<K, ()> }
impl<K: Hash + Eq> HashSet<K> {
    pub fn new() -> Self { Self { map: HashMap::new() } }
    pub fn insert(&mut self, k: K) -> bool { self.map.insert(k, ()).is_none() }
    pub fn contains<Q>(&self, q: &Q) -> bool where K: Borrow<Q>, Q: Hash + Eq + ?Sized { self.map.contains_key(q) }
}
impl<K> IntoIterator for HashSet<K> {
    type Item = K;
    type IntoIter = std::iter::Map<std::vec::IntoIter<(Fp, K, ())>, fn((Fp, K, ())) -> K>;
    fn into_iter(self) -> Self::IntoIter { fn key<K>(e: (Fp, K, ())) -> K { e.1 } self.map.entries.into_iter().map(key::<K>) }
}

// ---------------------------------------------------------------------------
// BTreeMap model: sorted vector.  Only what chunk_location_map.rs uses.
// ---------------------------------------------------------------------------
use std::ops::Bound;
#[derive(Clone, Debug)]
pub struct BTreeMap<K, V> { entries: Vec<(K, V)> }
impl<K, V> Default for BTreeMap<K, V> { fn default() -> Self { Self { entries: Vec::with_capacity(4) } } }
impl<K: Ord, V> BTreeMap<K, V> {
    pub fn new() -> Self { Self::default() }
    pub fn len(&self) -> usize { self.entries.len() }
    fn lower(&self, k: &K) -> usize { // first index with entries[i].0 >= k
        let mut i = 0;
        while i < self.entries.len() && self.entries[i].0 < *k { i += 1; }
        i
    }
    pub fn insert(&mut self, k: K, v: V) -> Option<V> {
        let i = self.lower(&k);
        if i < self.entries.len() && self.entries[i].0 == k {
            Some(std::mem::replace(&mut self.entries[i].1, v))
        } else { self.entries.insert(i, (k, v)); None }
    }
    pub fn remove(&mut self, k: &K) -> Option<V> {
        let i = self.lower(k);
        if i < self.entries.len() && self.entries[i].0 == *k { Some(self.entries.remove(i).1) } else { None }
    }
    pub fn iter(&self) -> impl DoubleEndedIterator<Item = (&K, &V)> { self.entries.iter().map(|(k, v)| (k, v)) }
    pub fn range(&self, r: (Bound<K>, Bound<K>)) -> impl DoubleEndedIterator<Item = (&K, &V)> {
        let lo = match &r.0 {
            Bound::Unbounded => 0,
            Bound::Included(k) => self.lower(k),
            Bound::Excluded(k) => { let i = self.lower(k); if i < self.entries.len() && self.entries[i].0 == *k { i + 1 } else { i } }
        };
        let hi = match &r.1 {
            Bound::Unbounded => self.entries.len(),
            Bound::Excluded(k) => self.lower(k),
            Bound::Included(k) => { let i = self.lower(k); if i < self.entries.len() && self.entries[i].0 == *k { i + 1 } else { i } }
        };
        let hi = if hi < lo { lo } else { hi };
        self.entries[lo..hi].iter().map(|(k, v)| (k, v))
    }
}
