//! `tokio` as seen by the mirrored bitar sources: everything is the real tokio
//! (AsyncRead/AsyncWrite/AsyncSeek, ReadBuf, the *Ext futures, pin!) except
//! `time::{sleep, Sleep}`, which need a runtime timer driver that a Kani
//! harness does not have.  The stub sleep is ready at once and records what
//! was asked for, so harnesses can assert "one sleep of the configured
//! duration per retry".
pub use real_tokio::*;
pub mod time {
    use std::future::Future;
    use std::pin::Pin;
    use std::task::{Context, Poll};
    pub use std::time::Duration;

    pub static mut SLEEP_CALLS: usize = 0;
    pub static mut LAST_SLEEP_SECS: u64 = 0;
    pub static mut SLEEP_POLLS: usize = 0;

    pub struct Sleep {
        _d: Duration,
    }
    pub fn sleep(d: Duration) -> Sleep {
        unsafe {
            SLEEP_CALLS += 1;
            LAST_SLEEP_SECS = d.as_secs();
        }
        Sleep { _d: d }
    }
    impl Future for Sleep {
        type Output = ();
        fn poll(self: Pin<&mut Self>, _cx: &mut Context<'_>) -> Poll<()> {
            unsafe {
                SLEEP_POLLS += 1;
            }
            Poll::Ready(())
        }
    }
}
