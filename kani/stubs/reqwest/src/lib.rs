//! Nondeterministic stand-in for the parts of `reqwest` that bitar uses.
//!
//! The "server" is a script filled in by the harness (usually with
//! `kani::any()` values): for the k-th request that is *sent* it says whether
//! the connection fails, into which fragments the body is cut, and whether the
//! body ends cleanly or with a transport error.  The Range header of every
//! request sent is logged.  Body bytes are `from_static` slices of a fixed
//! "file" `CONTENT` whose bytes are pairwise distinct, so a shifted, short or
//! duplicated delivery is visible in the data itself.
//!
//! Unless `MISBEHAVE` is set the server is *well behaved when it answers*:
//! it never sends bytes outside the requested range (fragment lengths are
//! clamped), which is the precondition C08 states.  With `MISBEHAVE` the clamp
//! is off (C15: a server may send more than was asked for).
//!
//! All state lives in flat `static mut` primitives: arrays of structs in
//! statics crash CBMC 6.11 (`l2_rename_rvalues`).
#![allow(static_mut_refs)]
use bytes::Bytes;
use std::fmt;
use std::future::Future;
use std::pin::Pin;
use std::task::{Context, Poll};

pub mod header {
    pub const RANGE: &str = "range";
}

#[derive(Clone, Debug, PartialEq, Eq)]
pub struct Url(pub ());
impl Url {
    pub fn parse(_s: &str) -> Result<Url, Error> {
        Ok(Url(()))
    }
}

#[derive(Debug)]
pub struct Error;
impl fmt::Display for Error {
    fn fmt(&self, f: &mut fmt::Formatter<'_>) -> fmt::Result {
        f.write_str("stub error")
    }
}
impl std::error::Error for Error {}

pub const MAX_REQ: usize = 4;
pub const MAX_FRAG: usize = 3;
pub const DATA_LEN: usize = 64;

// ---- script (input) -------------------------------------------------------
pub static mut CONNECT_FAIL: [bool; MAX_REQ] = [false; MAX_REQ];
/// send() returns Pending once before it resolves
pub static mut SEND_PENDING: [bool; MAX_REQ] = [false; MAX_REQ];
/// body fragment lengths; the first 0 ends the body
pub static mut FRAGS: [[u8; MAX_FRAG]; MAX_REQ] = [[0; MAX_FRAG]; MAX_REQ];
/// the body stream returns Pending once before fragment slot i
pub static mut FRAG_PENDING: [[bool; MAX_FRAG]; MAX_REQ] = [[false; MAX_FRAG]; MAX_REQ];
/// after the fragments: true = transport error, false = clean end of body
pub static mut END_ERR: [bool; MAX_REQ] = [false; MAX_REQ];
pub static mut CLONABLE: bool = true;
/// what `Response::content_length()` reports: server-controlled, set (usually symbolic) by the harness
pub static mut CONTENT_LENGTH: Option<u64> = None;
pub static mut MISBEHAVE: bool = false;
// ---- log (output) ---------------------------------------------------------
pub static mut N_REQUESTS: usize = 0;
pub static mut LOG_FIRST: [u64; MAX_REQ] = [0; MAX_REQ];
pub static mut LOG_LAST: [u64; MAX_REQ] = [0; MAX_REQ];
pub static mut N_CLONES: usize = 0;

pub static CONTENT: [u8; DATA_LEN] = {
    let mut t = [0u8; DATA_LEN];
    let mut i = 0;
    while i < DATA_LEN {
        t[i] = (i as u8).wrapping_mul(7).wrapping_add(3);
        i += 1;
    }
    t
};
pub fn content(i: u64) -> u8 {
    CONTENT[i as usize]
}
pub fn n_requests() -> usize {
    unsafe { N_REQUESTS }
}
pub fn logged(k: usize) -> (u64, u64) {
    unsafe { (LOG_FIRST[k], LOG_LAST[k]) }
}

pub struct Client;
impl Client {
    pub fn new() -> Self {
        Client
    }
    pub fn get(&self, _url: Url) -> RequestBuilder {
        RequestBuilder { range: None }
    }
}

pub struct RequestBuilder {
    range: Option<(u64, u64)>,
}
/// What `format!(lit, a, b)` would have rendered, kept unrendered (the mirror
/// generator rewrites `format!(` to `crate::verif_format!(` in
/// http_range_request.rs).  Trusted: `Display for u64`.
pub struct Formatted {
    pub lit: &'static str,
    pub a: u64,
    pub b: u64,
}
fn parse_range(v: &Formatted) -> (u64, u64) {
    // compared without a loop: every loop in a harness pays the global unwind bound
    let l = v.lit.as_bytes();
    assert!(l.len() == 11, "Range header literal changed");
    assert!(
        l[0] == b'b' && l[1] == b'y' && l[2] == b't' && l[3] == b'e' && l[4] == b's' && l[5] == b'='
            && l[6] == b'{' && l[7] == b'}' && l[8] == b'-' && l[9] == b'{' && l[10] == b'}',
        "Range header literal changed"
    );
    (v.a, v.b)
}
impl RequestBuilder {
    pub fn try_clone(&self) -> Option<RequestBuilder> {
        unsafe {
            N_CLONES += 1;
        }
        if unsafe { CLONABLE } {
            Some(RequestBuilder { range: self.range })
        } else {
            None
        }
    }
    pub fn header(mut self, name: &str, value: Formatted) -> RequestBuilder {
        let n = name.as_bytes();
        assert!(n.len() == 5, "unexpected header name");
        assert!(n[0] == b'r' && n[1] == b'a' && n[2] == b'n' && n[3] == b'g' && n[4] == b'e', "unexpected header name");
        self.range = Some(parse_range(&value));
        self
    }
    pub fn send(self) -> Pending {
        Pending {
            range: self.range,
            polled: false,
        }
    }
}
pub struct Pending {
    range: Option<(u64, u64)>,
    polled: bool,
}
impl Future for Pending {
    type Output = Result<Response, Error>;
    fn poll(mut self: Pin<&mut Self>, _cx: &mut Context<'_>) -> Poll<Self::Output> {
        let (first, last) = match self.range {
            Some(r) => r,
            None => panic!("request sent without a Range header"),
        };
        let k = unsafe { N_REQUESTS };
        assert!(k < MAX_REQ, "stub bound: too many requests");
        if !self.polled {
            self.polled = true;
            if unsafe { SEND_PENDING[k] } {
                return Poll::Pending;
            }
        }
        unsafe {
            LOG_FIRST[k] = first;
            LOG_LAST[k] = last;
            N_REQUESTS = k + 1;
        }
        if unsafe { CONNECT_FAIL[k] } {
            Poll::Ready(Err(Error))
        } else {
            Poll::Ready(Ok(Response {
                first,
                last,
                frags: unsafe { FRAGS[k] },
                frag_pending: unsafe { FRAG_PENDING[k] },
                end_err: unsafe { END_ERR[k] },
                misbehave: unsafe { MISBEHAVE },
                frag: 0,
                sent: 0,
                pended: false,
            }))
        }
    }
}
pub struct Response {
    first: u64,
    last: u64,
    // this reply's row of the script, copied when the request resolves
    frags: [u8; MAX_FRAG],
    frag_pending: [bool; MAX_FRAG],
    end_err: bool,
    misbehave: bool,
    frag: usize,
    sent: u64,
    pended: bool,
}
impl Response {
    /// A response in mid-body, for harnesses that inject a request state: it was requested for
    /// [first, last] and has sent `sent` bytes so far; the rest of its script is given.
    pub fn inject(first: u64, last: u64, sent: u64, frags: [u8; MAX_FRAG], end_err: bool, misbehave: bool) -> Response {
        Response {
            first,
            last,
            frags,
            frag_pending: [false; MAX_FRAG],
            end_err,
            misbehave,
            frag: 0,
            sent,
            pended: false,
        }
    }
    pub fn bytes_stream(self) -> BodyStream {
        BodyStream(self)
    }
    /// The Content-Length header of the reply: whatever the server chose to declare.
    pub fn content_length(&self) -> Option<u64> {
        unsafe { CONTENT_LENGTH }
    }
    /// Next body fragment (reqwest's `Response::chunk`).
    pub async fn chunk(&mut self) -> Result<Option<Bytes>, Error> {
        // same script as bytes_stream(); a borrowed view of this response
        let mut tmp = BodyStream(Response {
            first: self.first,
            last: self.last,
            frags: self.frags,
            frag_pending: self.frag_pending,
            end_err: self.end_err,
            misbehave: self.misbehave,
            frag: self.frag,
            sent: self.sent,
            pended: self.pended,
        });
        let r = tmp.next_frag(false);
        self.frag = tmp.0.frag;
        self.sent = tmp.0.sent;
        self.end_err = tmp.0.end_err;
        self.pended = tmp.0.pended;
        match r {
            Poll::Ready(Some(Ok(b))) => Ok(Some(b)),
            Poll::Ready(Some(Err(e))) => Err(e),
            Poll::Ready(None) => Ok(None),
            Poll::Pending => unreachable!(),
        }
    }
    /// Whole body at once (used by `HttpRangeRequest::single`).
    pub async fn bytes(self) -> Result<Bytes, Error> {
        let mut s = BodyStream(self);
        let a = s.0.first;
        let mut total: u64 = 0;
        loop {
            match s.next_frag(false) {
                Poll::Ready(Some(Ok(b))) => {
                    total += b.len() as u64;
                    std::mem::forget(b);
                }
                Poll::Ready(Some(Err(e))) => return Err(e),
                Poll::Ready(None) => {
                    let a = a as usize;
                    return Ok(Bytes::from_static(&CONTENT[a..a + total as usize]));
                }
                Poll::Pending => unreachable!(),
            }
        }
    }
}
pub struct BodyStream(Response);
impl BodyStream {
    fn end_of_script(r: &mut Response) -> Poll<Option<Result<Bytes, Error>>> {
        if r.end_err {
            r.end_err = false;
            return Poll::Ready(Some(Err(Error)));
        }
        Poll::Ready(None)
    }
    fn next_frag(&mut self, may_pend: bool) -> Poll<Option<Result<Bytes, Error>>> {
        let r = &mut self.0;
        // a zero-length slot ends the body (no loop: loops pay the harness-wide unwind bound)
        if r.frag >= MAX_FRAG || r.frags[r.frag] == 0 {
            r.frag = MAX_FRAG;
            return Self::end_of_script(r);
        }
        if may_pend && !r.pended && r.frag_pending[r.frag] {
            r.pended = true;
            return Poll::Pending;
        }
        r.pended = false;
        let mut n = r.frags[r.frag] as u64;
        if !r.misbehave {
            // well-behaved: never beyond the requested range
            let want = if r.last + 1 >= r.first + r.sent {
                r.last + 1 - r.first - r.sent
            } else {
                0
            };
            if n > want {
                n = want;
            }
            if n == 0 {
                // range exhausted: the rest of the fragments of this reply are void
                r.frag = MAX_FRAG;
                return Self::end_of_script(r);
            }
        }
        r.frag += 1;
        let a = (r.first + r.sent) as usize;
        r.sent += n;
        assert!(
            a + n as usize <= DATA_LEN,
            "stub bound: request beyond modelled file"
        );
        Poll::Ready(Some(Ok(Bytes::from_static(&CONTENT[a..a + n as usize]))))
    }
}
impl futures_util::stream::Stream for BodyStream {
    type Item = Result<Bytes, Error>;
    fn poll_next(mut self: Pin<&mut Self>, _cx: &mut Context<'_>) -> Poll<Option<Self::Item>> {
        self.next_frag(true)
    }
}
