SOURCE_COMMITS = [
    'a65ae7b fix: keep BuzHash repeated-input tracking in sync while priming the window',
    '5a3c8b9 fix: compare the full header checksum when --verify-header is given',
    '0148b59 fix: reject chunker parameters that make the chunkers panic or never progress',
    '68aa903 fix: reject archives whose rebuild order points outside the chunk list',
    '56ca2dd fix: do not underflow the remaining size when a server sends too much',
    '1965d0a fix: serve a zero sized chunk over http without underflowing the run counter',
    'd496a83 fix: return no data for a zero sized chunk read from a local archive',
    '1678162 fix: do not overflow the RollSum sums for large hash windows',
    '0b48bc8 fix: reject a dictionary size whose header region would overflow',
    'e429ce3 fix: reject chunk descriptors whose archive range does not fit in an offset',
    '65b834a fix: do not divide by zero when printing info of an archive without chunks',
]
NOTES = ("Every check is decided by a SAT solver over the compiled real code within stated bounds (see DESIGN.md); "
         "exit 2 + an INCONCLUSIVE line means time-out / out of memory / vacuous harness / mirror edit not applicable -- never a pass, never a violation. "
         "known_findings.json lists genuine defects (fixed ones suppress nothing).")
TECH = "bounded model checking of the real code (Kani -> CBMC -> SAT), single-step harnesses from injected symbolic states + invariants"
CLAIMED = {
    "C10": {
        "text": "Inductive: from ANY hasher state satisfying a representation invariant (established by new/priming), one input keeps the invariant and the sum equals a closed form of the last `window` bytes -- so the rolling state is a function of the trailing window for streams of any length (BuzHash windows up to 64, RollSum up to 3, all byte values). Plus bounded from-reset two-history equivalence and a chunker-level resynchronisation step. The solver decides each step for all values; this is the right level because the property quantifies over all prefix pairs, which an inductive step covers and sampling cannot.",
        "design_ref": "DESIGN.md section 4 (C10)",
        "note": "Trusted: Kani/CBMC/CaDiCaL; the struct-literal BuzHash constructor (tied to BuzHash::new by c09_buz_new_equals_literal); ring index enumerated concretely per harness; windows/configurations outside the instantiated ones are outside the claim.",
        "technique": TECH},
    "C09": {
        "text": "The boundary rule is written independently (closed-form hash of the trailing window, no rolling) and one `next()` of the real RollingHashChunker/FixedSizeChunker is compared with it for every byte string, every scan position (fresh, mid-chunk after refills, after a boundary) and every small configuration; tiling/offset glue of the streaming wrapper is a one-poll step under an invariant. By induction over steps the chunk sequence is a function of the bytes alone. Bounded by window<=3, max<=6, buffers<=8 bytes.",
        "design_ref": "DESIGN.md section 4 (C09)",
        "note": "Trusted: crate bytes as executed by CBMC; BuzHash chunker harnesses use a 4-letter alphabet with an ARBITRARY 4-entry table (holds for every table); REFILL_SIZE scaled to 8 in the mirror; composition of steps into whole streams is by the stated invariants, not executed.",
        "technique": TECH},
    "C07": {
        "text": "Run-length helper decided at full width for n<=4; from any position of any chunk list (any order/gaps) the 'new request' step creates exactly one range request spanning the maximal adjacent run with exact bounds, the 'serve' step keeps the run counter invariant and drops the request exactly at the end of the run, and the Range header rendering is exact for all u64 offset/size. Steps preserve the invariant, so the request sequence of any fault-free run is the sequence of maximal runs.",
        "design_ref": "DESIGN.md section 4 (C07)",
        "note": "Trusted: reqwest stub, unrendered format!, scripted inner request for ChunkReader-level steps (contract proved separately); step harnesses use offsets<40, sizes 1..3.",
        "technique": TECH},
    "C08": {
        "text": "HTTP: one poll of the range-request state machine from any state satisfying invariant R, under every reply script (connect failures, arbitrary fragmentation, mid-body errors, early clean end), for retry budgets 0..2: every re-request resumes at the first byte not yet received, delivered bytes are exactly the next bytes of the range, errors only when the budget is exhausted, one sleep per retry; read_at path likewise. Local reader: one poll from any state under invariant J for any short read / Pending / EOF / error. Fault scripts are symbolic, so all cut points inside the bound are covered at once.",
        "design_ref": "DESIGN.md section 4 (C08)",
        "note": "Trusted: reqwest/tokio-sleep stubs, mock AsyncRead/AsyncSeek; sizes<=5, fragments<=6 bytes, <=3 fragments per reply; composition over polls by invariant.",
        "technique": TECH},
}
CLAIMED["C04"] = {
    "text": "Chunk verification step: for every chunk content and every expected hash of every length, verify() accepts iff the truncated digest matches and then hands on exactly that chunk -- so no unverified or altered chunk can become a VerifiedChunk (the only thing feed accepts); raw chunks reach verification unmodified; the comparator the CLI applies to --verify-header is decided for all expected values of all lengths against all header checksums. Solver-decided for all values because corruption is universally quantified over bytes.",
    "design_ref": "DESIGN.md section 4 (C04)",
    "note": "Reduced scope: header checksum test in try_init, real decompressors, exit status and --verify-output are out of reach. Blake2 replaced by an ideal (injective) digest. The --verify-header condition is extracted textually from src/clone_cmd.rs on every run.",
    "technique": TECH}
CLAIMED["C15"] = {
    "text": "Post-decode consumers of untrusted fields and the HTTP state machines under a misbehaving server are run on unconstrained symbolic values; Kani turns every reachable panic, arithmetic overflow, out-of-bounds index and unwrap into a solver-decided check, and a 'never an empty chunk' assertion stands for bounded work. Harnesses go through the reader's own validation (chunker_config_from_params, source_order_is_valid): whatever it accepts must run. Rare field values (window 0, bits 33, index == len, size 0) are exactly what a solver finds and sampling does not -- eight defects were found this way and fixed.",
    "design_ref": "DESIGN.md section 4 (C15) and section 5",
    "note": "Reduced scope: protobuf decoding and Blake2 are environment; try_init is executed up to its second read (pre-header arithmetic for EVERY dictionary size -- found F14); the harness that ran everything try_init does with the decoded dictionary found F15 and stopped finishing after the fix (not registered); the 'Average chunk size' expression of `bita info` is extracted from the CLI source (found F16); the readers' allocation of dictionary-size bytes and the decompressors are out of reach. Dev-profile semantics (overflow checks on).",
    "technique": TECH}
CLAIMED["C06"] = {
    "text": "chunk_stream step: for every subset of the clone index and every descriptor layout (any offsets/order/gaps) the reader is asked for exactly the descriptors still wanted, each once, in descriptor order, with (offset,size) verbatim, and nothing else; together with the lookup/remove step (a written chunk's entry is gone) a chunk found in a seed is never requested.",
    "design_ref": "DESIGN.md section 4 (C06/C17)",
    "note": "Reduced scope: 2 descriptors; header-region reads, in-place scan, block devices and the CLI flow are not executable here. Model map, recording reader mock.",
    "technique": TECH}
CLAIMED["C17"] = {
    "text": "Post-decode reader: both magics and nothing else are accepted (all byte strings <= 16 bytes); descriptor offsets/sizes are passed to the readers verbatim in any order with gaps, and both readers take the list as given (entry harnesses, incl. concrete descending layouts); raw-vs-compressed rule per chunk; the local reader seeks to each chunk's own offset and the HTTP reader opens a new range request whenever the next chunk is not adjacent (steps shared with C07/C08).",
    "design_ref": "DESIGN.md section 4 (C06/C17)",
    "note": "Reduced scope: protobuf decoding (unknown fields), Archive::try_init's post-decode part (the harness for it is not registered: it no longer finishes) and real decompression are out of reach; the readers' ENTRY points are executed with chunk lists in any order (the list is taken as given).",
    "technique": TECH}
CLAIMED["C02"] = {
    "text": "Truncated-hash key consistency decided at full width (all 64-byte digests and keys, all lengths): a lookup hits exactly when the truncated hashes agree; index lookup/remove step through the real ChunkIndex; a hit writes the fed chunk's own bytes at the entry's offset, a miss writes nothing -- a seed can change whether bytes come from the archive, never which bytes (given collision freeness).",
    "design_ref": "DESIGN.md section 4 (C02/C13/C05)",
    "note": "Reduced scope: seed re-chunking/hashing and all CLI stages are not executable; feed is decided compositionally (see C13). Model map instead of std HashMap.",
    "technique": TECH}
CLAIMED["C13"] = {
    "text": "Write step decided for all offsets/data: per destination one seek to exactly that offset followed by all of the chunk's bytes, once; feed itself, hit and miss path -- over a scripted write loop (glue) and, de-sugared to a plain function, as ONE unit over the real lookup and the real write loop on a file of symbolic bytes: written exactly once iff the truncated hashes agree, all of the chunk's bytes at all of the entry's offsets, the entry is removed (so each location is written at most once: a duplicate feed writes nothing), unrelated entries and the rest of the file untouched.",
    "design_ref": "DESIGN.md section 4 (C02/C13/C05)",
    "note": "Reduced scope: CloneOutput::feed as a COROUTINE over the real write loop does not get through CBMC; it is decided (a) as one unit in a generated copy where async fn -> fn and .await -> a single poll that must be ready (always-ready mocks; Pending interleavings excluded), and (b) compositionally: feed's own text over a scripted write loop (c13_feed_glue_*: entered once iff hit, with exactly the entry's offsets and the fed chunk, result handed on, entry gone, duplicate writes nothing), the real write loop on its own, and both real functions in feed's order. In-place stripping and the source-length bound are not executed (see C03).",
    "technique": TECH}
CLAIMED["C05"] = {
    "text": "Fault step: the k-th seek or write fails, or the k-th write accepts only a prefix (k, prefix symbolic) => write_offset returns Err, never Ok with fewer bytes than the chunk on the output; bytes that did land are contiguous from the destination. All fault points inside the bound are covered by one query.",
    "design_ref": "DESIGN.md section 4 (C02/C13/C05)",
    "note": "Reduced scope: only 'a run whose write failed or was cut short never reports success' -- at the write step, through feed (an error of the write loop is handed on: c13_feed_glue_*_fail, c13_feed_unit_*_faults); the in-place executor's one-operation fault scenario runs under C03's thorough tier (c03_exec_min_faults); the 're-running completes' half is rescan+reorder+fetch and is not executable.",
    "technique": TECH}
CLAIMED["C03"] = {
    "text": "Two components of the in-place update, not the whole: (1) the overlap query the planner uses to find the chunks a move would overwrite is EXACT for every layout of 3 disjoint chunks and every destination range (full 2^40 offsets) -- no reusable chunk a move destroys can go unnoticed; (2) the executor reorder_in_place, run as a whole on one-operation plans (one move; one chunk to two destinations; quick tier) and with a read or write fault at a symbolic call (thorough tier: 15 minutes) over a file whose every byte is symbolic: every moved chunk's ORIGINAL bytes end at all of its destinations, nothing else is written, moved chunks leave the clone index, a failed read or write fails the run.",
    "design_ref": "DESIGN.md section 4 (C03)",
    "note": "Reduced scope, stated plainly: the reorder PLANNER (reorder_ops/build_reorder_ops) and strip_chunks_already_in_place are NOT executed (std containers, sort, Vec::remove at symbolic positions do not get through CBMC); executor plans with two or more operations run out of memory (values that live in the coroutine are not constant-propagated), so the buffered-chunk path and cyclic multi-move plans are outside the claim. Planner scripted, write loop scripted (stores into a mock file), BTreeMap/HashMap models.",
    "technique": "bounded model checking of the real code (Kani -> CBMC -> SAT): step harness with a fully symbolic layout/query for the overlap lemma; scenario runs (concrete plan, symbolic file contents and fault points) for the executor"}
NOT_APPLICABLE = {
    "C01": "writer pipeline = tokio runtime + spawn_blocking threads + tokio::fs/tempfile + brotli/zstd/lzma: none of it can be encoded by Kani/CBMC (no threads, no FFI file I/O, compression loops grow with input); the reader-side sub-lemmas are checked under C17/C06/C04 and the tiling half under C09",
    "C11": "both writers unreachable (as C01); header::build needs prost encoding + Blake2 over symbolic bytes",
    "C12": "quantifies over thread schedules of a tokio runtime; Kani has no concurrency model",
    "C14": "CLI behaviour against a real file system (open flags, set_len, exit status) -- not symbolic-executable",
    "C16": "observes open/creat/unlink of the real process -- not symbolic-executable",
}
