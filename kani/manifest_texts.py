SOURCE_COMMITS = ["a65ae7b fix: keep BuzHash repeated-input tracking in sync while priming the window",
                  "5a3c8b9 fix: compare the full header checksum when --verify-header is given"]
NOTES = ("Every check is decided by a SAT solver over the compiled real code within stated bounds (see DESIGN.md); "
         "exit 2 + an INCONCLUSIVE line means time-out / out of memory / vacuous harness / mirror edit not applicable -- never a pass, never a violation. "
         "known_findings.json lists genuine defects (fixed ones suppress nothing).")
TECH = "bounded model checking of the real code (Kani -> CBMC -> SAT), single-step harnesses from injected symbolic states + invariants"
CLAIMED = {
    "C10": {
        "text": "Inductive: from ANY hasher state satisfying a representation invariant (established by new/priming), one input keeps the invariant and the sum equals a closed form of the last `window` bytes -- so the rolling state is a function of the trailing window for streams of any length (BuzHash windows up to 64, RollSum up to 3, all byte values). Plus bounded from-reset two-history equivalence and a chunker-level resynchronisation step. The solver decides each step for all values; this is the right level because the property quantifies over all prefix pairs, which an inductive step covers and sampling cannot.",
        "design_ref": "DESIGN.md section 4 (C10)",
        "note": "Trusted: Kani/CBMC/CaDiCaL; the struct-literal BuzHash constructor (tied to BuzHash::new by c09_buz_new_equals_literal); ring index enumerated concretely per harness; windows/configurations outside the instantiated ones are outside the claim.",
        "technique": TECH},
    "C09": {
        "text": "The boundary rule is written independently (closed-form hash of the trailing window, no rolling) and one `next()` of the real RollingHashChunker/FixedSizeChunker is compared with it for every byte string, every scan position (fresh, mid-chunk after refills, after a boundary) and every small configuration; tiling/offset glue of the streaming wrapper is a one-poll step under an invariant. By induction over steps the chunk sequence is a function of the bytes alone. Bounded by window<=3, max<=6, buffers<=8 bytes.",
        "design_ref": "DESIGN.md section 4 (C09)",
        "note": "Trusted: crate bytes as executed by CBMC; BuzHash chunker harnesses use a 4-letter alphabet with an ARBITRARY 4-entry table (holds for every table); REFILL_SIZE scaled to 8 in the mirror; composition of steps into whole streams is by the stated invariants, not executed.",
        "technique": TECH},
    "C07": {
        "text": "Run-length helper decided at full width for n<=4; from any position of any chunk list (any order/gaps) the 'new request' step creates exactly one range request spanning the maximal adjacent run with exact bounds, the 'serve' step keeps the run counter invariant and drops the request exactly at the end of the run, and the Range header rendering is exact for all u64 offset/size. Steps preserve the invariant, so the request sequence of any fault-free run is the sequence of maximal runs.",
        "design_ref": "DESIGN.md section 4 (C07)",
        "note": "Trusted: reqwest stub, unrendered format!, scripted inner request for ChunkReader-level steps (contract proved separately); step harnesses use offsets<40, sizes 1..3.",
        "technique": TECH},
    "C08": {
        "text": "HTTP: one poll of the range-request state machine from any state satisfying invariant R, under every reply script (connect failures, arbitrary fragmentation, mid-body errors, early clean end), for retry budgets 0..2: every re-request resumes at the first byte not yet received, delivered bytes are exactly the next bytes of the range, errors only when the budget is exhausted, one sleep per retry; read_at path likewise. Local reader: one poll from any state under invariant J for any short read / Pending / EOF / error. Fault scripts are symbolic, so all cut points inside the bound are covered at once.",
        "design_ref": "DESIGN.md section 4 (C08)",
        "note": "Trusted: reqwest/tokio-sleep stubs, mock AsyncRead/AsyncSeek; sizes<=5, fragments<=6 bytes, <=3 fragments per reply; composition over polls by invariant.",
        "technique": TECH},
}
CLAIMED["C04"] = {
    "text": "Chunk verification step: for every chunk content and every expected hash of every length, verify() accepts iff the truncated digest matches and then hands on exactly that chunk -- so no unverified or altered chunk can become a VerifiedChunk (the only thing feed accepts); raw chunks reach verification unmodified; the comparator the CLI applies to --verify-header is decided for all expected values of all lengths against all header checksums. Solver-decided for all values because corruption is universally quantified over bytes.",
    "design_ref": "DESIGN.md section 4 (C04)",
    "note": "Reduced scope: header checksum test in try_init, real decompressors, exit status and --verify-output are out of reach. Blake2 replaced by an ideal (injective) digest. The --verify-header condition is extracted textually from src/clone_cmd.rs on every run.",
    "technique": TECH}
NOT_APPLICABLE = {
    "C01": "writer pipeline = tokio runtime + spawn_blocking threads + tokio::fs/tempfile + brotli/zstd/lzma: none of it can be encoded by Kani/CBMC (no threads, no FFI file I/O, compression loops grow with input); the reader-side sub-lemmas are checked under C17/C06/C04 and the tiling half under C09",
    "C03": "reorder planner/executor are HashMap/HashSet/BTreeMap/sort/Vec::insert code; even with model containers one chunk does not get through symex+SAT (DESIGN.md section 2)",
    "C11": "both writers unreachable (as C01); header::build needs prost encoding + Blake2 over symbolic bytes",
    "C12": "quantifies over thread schedules of a tokio runtime; Kani has no concurrency model",
    "C14": "CLI behaviour against a real file system (open flags, set_len, exit status) -- not symbolic-executable",
    "C16": "observes open/creat/unlink of the real process -- not symbolic-executable",
}
