"""Registry of Kani harnesses: which property each serves, in which tier it
runs, what is symbolic and inside which bound, which real functions it
executes.  The driver (bin/check) reads this; evidence files quote it."""

TIMEOUT = {"quick": 900, "thorough": 5400}
REPLAY_TIMEOUT = 1800

COMMON_STUBS = [
    "log macros: crate `log` built with max_level_off (no-ops)",
]
COMMON_ASSUMPTIONS = [
    "Kani 0.68 / CBMC 6.11 / CaDiCaL are sound for the GOTO program Kani compiles from the mirrored sources (dev profile semantics: overflow checks on)",
    "the mirror crate is a copy of /repo/bitar/src taken at the start of the run plus the mechanical edits listed under coverage.mirror",
    "claims hold only inside each harness's stated bound; unwinding assertions are on, so a bound that is too small is reported, not ignored",
]

PROPERTIES = {}
H = []


def prop(pid, outside="", assumptions=None):
    PROPERTIES[pid] = {"outside": outside, "assumptions": assumptions or []}


def h(name, props, tier, bound, claims, functions, stubs=None, heavy=False):
    H.append({"name": name, "props": props, "tier": tier, "bound": bound, "claims": claims,
              "functions": functions, "stubs": stubs or [], "heavy": heavy})


def harnesses(pid, tier):
    out = []
    for x in H:
        if pid is not None and pid not in x["props"]:
            continue
        if tier == "quick" and x["tier"] != "quick":
            continue
        out.append(x)
    return out



BUZ = ["BuzHash::init", "BuzHash::input", "BuzHash::sum", "BuzHash::init_done"]
RS = ["RollSum::new", "RollSum::input", "RollSum::add", "RollSum::sum"]
RHC = ["RollingHashChunker::new", "RollingHashChunker::next", "RollingHashChunker::skip_min_chunk",
       "RollingHashChunker::scan_for_boundary", "FilterBits::mask"]
BYTES_TRUSTED = "crate `bytes` (BytesMut/Bytes) is executed as compiled, not specified: results about chunk contents rely on its split_to/freeze/extend being executed faithfully by CBMC"

# ---------------------------------------------------------------------------
# hasher lemmas (shared by C09 and C10)
# ---------------------------------------------------------------------------
prop("C10",
     outside="BuzHash windows other than those instantiated (1..5, 8, 16, 32, 64: one harness per window and ring index listed); RollSum windows > 3 (the adder-chain equivalence does not finish in the SAT back end: w=4 ran 50 minutes without a verdict); from-reset harnesses: prefixes <= 6 and common data <= 10 bytes; chunker-level resync: BuzHash over a 4-letter alphabet with an arbitrary table, configurations of the grid (w<=3,max<=6), for RollSum by composition (rule harness with o=0 + hasher lemma) rather than by a two-instance harness; run lengths >= 2^64",
     assumptions=["ring index of the hashers is enumerated concretely per harness instance, all byte values symbolic",
                  "BuzHash harnesses look each symbolic byte up once and reason over the table values; c09_buz_new_equals_literal ties the struct-literal constructor used by harnesses to BuzHash::new"])
prop("C09",
     outside="windows > 3 / max chunk > 6 (RollSum: symbolic configuration) and configurations outside the (w<=3, min<=max<=6) grid (BuzHash: one harness per grid point, filter bits 1..3 symbolic); buffers > 8 bytes; BuzHash bytes outside a 4-letter alphabet (with an arbitrary 4-entry table) in the chunker harnesses; the streaming glue with REFILL_SIZE scaled to 8 in the mirror; whole-stream runs (the claim is by induction over single steps from injected states: invariant + step)",
     assumptions=[BYTES_TRUSTED,
                  "mid-chunk hasher state is injected by feeding the last w bytes through the real init/input; that the ring position is irrelevant is the C10 hasher lemma"])

for w, idxs, u in ((1, [0], "quick"), (2, [0, 1], "quick"), (3, [0, 1, 2], "quick"), (4, [0, 1, 2, 3], "thorough"),
                   (5, [0, 3], "thorough"), (8, [0, 5], "quick"), (16, [0, 9], "quick"), (32, [0, 31], "thorough"), (64, [0, 17], "thorough")):
    for i in idxs:
        h("c10_buz_inductive_step_w%d_i%d" % (w, i), ["C10", "C09"], u,
          "window=%d, ring index=%d (concrete); window bytes, next byte, last_input: all 256 values; repeated_input: any usize < MAX" % (w, i),
          "from ANY BuzHash state satisfying the representation invariant INV, input(b) re-establishes INV and sum() == closed form of the last w bytes",
          BUZ)
for w, u in ((1, "quick"), (3, "quick"), (4, "thorough")):
    h("c10_buz_inv_after_init_w%d" % w, ["C10", "C09"], u, "window=%d; all priming bytes symbolic" % w,
      "priming a fresh BuzHash with w bytes establishes INV (so the inductive step applies to every reachable state)", BUZ)
for nm, u in (("w2_p0_p3", "quick"), ("w3_p0_p4", "quick"), ("w3_p2_p4", "thorough"), ("w3_p4_p4", "thorough"), ("w4_p1_p6", "thorough")):
    h("c10_buz_window_only_" + nm, ["C10"], u,
      "window/prefix lengths as in the name (concrete), every prefix and suffix byte symbolic, suffix 7..10 bytes",
      "two BuzHash instances fed P1+S and P2+S from reset report equal sums from one window into S on", BUZ)
for w, idxs, u in ((1, [0], "quick"), (2, [0, 1], "quick"), (3, [0, 1, 2], "quick")):
    for i in idxs:
        h("c10_rollsum_inductive_step_w%d_i%d" % (w, i), ["C10", "C09"], u,
          "window=%d, ring offset=%d (concrete); window bytes and next byte symbolic; s1,s2 any u32 consistent with the window" % (w, i),
          "from ANY RollSum state consistent with a window, input(b) gives the closed form of the shifted window and stays consistent", RS)
h("c10_rollsum_inv_after_new", ["C10", "C09"], "quick", "window 1..8 symbolic",
  "RollSum::new(w) is consistent with the all-zero window", RS)
for nm, u in (("w2_p0_p2", "quick"), ("w2_p1_p3", "quick")):
    h("c10_rollsum_window_only_" + nm, ["C10"], u,
      "window/prefix lengths as in the name, all bytes symbolic",
      "two RollSum instances fed P1+S and P2+S from reset report equal sums from one window into S on", RS)
h("c09_buz_new_equals_literal", ["C09", "C10"], "quick", "window 1..4 symbolic; all 256 table entries compared",
  "BuzHash::new(w) equals the struct-literal constructor the other harnesses use (which skips the 256-iteration table loop)",
  ["BuzHash::new", "BuzHash::generate_seeded_table"])
h("c09_buz_closed_form_matches_repo_vector", ["C09", "C10"], "quick", "concrete",
  "the closed form used as oracle reproduces the value pinned by the repository's own unit test (1406929643 for [1,2,3,4,5], w=5)", BUZ)
for nm, u in (("w2_m1_x4", "quick"), ("w3_m0_x6", "quick"), ("w3_m5_x6", "thorough"), ("w1_m2_x5", "thorough")):
    h("c10_chunker_resync_step_buzhash_" + nm, ["C10"], u,
      "config as in the name, filter bits 1..3; table: 4 arbitrary u32; histories P1(4 bytes)+common(3) vs common only; buffer <= 6 bytes over a 4-letter alphabet",
      "two chunkers that just cut at the same position of common data give the same next boundary and equal hasher sums (=> all later chunks identical, by induction)",
      BUZ + RHC)
h("c10_fixed_size_stateless", ["C10"], "quick", "size 1..6, buffer <= 6 symbolic bytes",
  "FixedSizeChunker::next depends on the buffer only (a chunker with history and a new one agree)", ["FixedSizeChunker::next"])

# ---------------------------------------------------------------------------
# C09 chunker rule
# ---------------------------------------------------------------------------
h("c09_rule_first_chunk_rollsum_small", ["C09"], "quick",
  "6 symbolic bytes, len 0..6; window 1..2, min<=max<=5, window<=max, filter bits 1..2: all symbolic",
  "as c09_rule_first_chunk_rollsum at the smaller bound (quick tier)", RHC + RS)
h("c09_rule_mid_chunk_rollsum_small", ["C09", "C10"], "quick",
  "6 symbolic bytes + 2 previous bytes; scan offset o symbolic; window 1..2, max<=5, bits 1..2: all symbolic",
  "as c09_rule_mid_chunk_rollsum at the smaller bound (quick tier)", RHC + RS)
h("c09_rule_first_chunk_rollsum", ["C09"], "thorough",
  "8 symbolic bytes, len 0..8; window 1..3, min<=max<=6, window<=max, filter bits 1..3: all symbolic",
  "next() on a fresh RollSum chunker == the independent rule (least e >= max(min,1) with closed-form hash of the trailing window matching the mask, else max, else None); chunk bytes, rest of buffer, offset reset; POST-STATE: offset == len after None, hasher window == a reference fed exactly the hashed bytes once",
  RHC + RS)
h("c09_rule_mid_chunk_rollsum", ["C09"], "thorough",
  "7 symbolic bytes + 3 symbolic previous bytes; scan offset o any 0..len (o=0: chunk after a boundary; o>0: after refills); config symbolic as above",
  "one next() from ANY mid-chunk state (offset o, hasher holding the last w bytes fed) == the rule evaluated on the whole buffer, and it ENDS in such a state again (post-state check) => refill independence and the rule for every chunk after the first, by induction",
  RHC + RS)
QUICK_GRID = [(1, 0, 2), (2, 1, 4), (2, 3, 5), (3, 5, 6)]
for w in (1, 2, 3):
    for mx in range(w, 7):
        for mn in range(0, mx + 1):
            t = "w%d_m%d_x%d" % (w, mn, mx)
            u = "quick" if (w, mn, mx) in QUICK_GRID else "thorough"
            b = "BuzHash window=%d min=%d max=%d (concrete), filter bits 1..3 symbolic; table: 4 arbitrary u32 values; bytes over a 4-letter alphabet" % (w, mn, mx)
            h("c09_buz_first_" + t, ["C09"], u, b + "; 8 bytes, len symbolic",
              "next() on a fresh BuzHash chunker == the rule (first w bytes prime the window, first test at w+1)", RHC + BUZ)
            h("c09_buz_mid_" + t, ["C09", "C10"] if u == "quick" else ["C09"], u, b + "; 7 bytes + 3 previous bytes, scan offset o symbolic",
              "one next() from any mid-chunk state == the rule on the whole buffer", RHC + BUZ)
            h("c09_buz_firstmid_" + t, ["C09"], u, b + "; 7 bytes, scan offset o symbolic incl. in the middle of priming",
              "one next() from any refill point of the FIRST chunk (priming partially done) == the rule", RHC + BUZ)
for nm, u in (("w2_m1_x4", "quick"), ("w3_m5_x6", "thorough")):
    h("c09_next_equals_slice_step_" + nm, ["C09", "C10"], u, "config as in the name; 7 bytes over a 4-letter alphabet",
      "Chunker::next on a BytesMut == the same three steps on a slice (ties the slice-based two-instance harness to the real next)", RHC + BUZ)
h("c09_fixed_size_rule", ["C09"], "quick", "size 1..8, buffer <= 9 symbolic bytes",
  "FixedSizeChunker::next returns exactly the first `size` bytes iff the buffer has that many, else None and leaves the buffer alone", ["FixedSizeChunker::next"])
h("c09_mask_bits", ["C09"], "quick", "filter bits 1..=31 (full documented range, no other bound)", "mask() == 2^bits - 1", ["FilterBits::mask", "FilterBits::from_bits"])
h("c09_from_size", ["C09"], "quick", "every u32 size >= 4", "from_size rounds the average target down to a power of two", ["FilterBits::from_size", "FilterBits::chunk_target_average"])

# ---------------------------------------------------------------------------
# C07
# ---------------------------------------------------------------------------
CR = ["ChunkReader::poll_read", "ChunkReader::adjacent_reads", "HttpRangeRequest::new", "HttpRangeRequest::retry"]
RR = ["HttpRangeRequest::poll_read", "HttpRangeRequest::poll_read_fail"]
STUB_REQWEST = "crate `reqwest` replaced by kani/stubs/reqwest: scripted server (per request: connect failure, <=3 body fragments, clean end or transport error, optional Pending), Range header logged; body bytes are slices of a fixed 64-byte file with pairwise distinct bytes; well-behaved-when-it-answers unless MISBEHAVE"
STUB_FORMAT = "format!(\"bytes={}-{}\", a, b) kept unrendered (literal + two u64 handed to the stub, literal compared byte for byte); trusted: Display for u64"
STUB_SLEEP = "tokio::time::sleep replaced by an immediately-ready future that records the requested duration"
STUB_INNER = "ChunkReader-level harnesses: HttpRangeRequest::poll_read answers from a script (prologue inserted by the mirror generator, off by default) honouring the contract proved in proofs/range_request.rs (next bytes of the requested range, never beyond it)"
prop("C07",
     outside="chunk lists longer than 4 (the step harnesses are position-independent, only the run-length helper is bounded by n<=4); offsets >= 40 and sizes > 3 in the step harnesses (the helper is full width); transfer failures (C08)",
     assumptions=["invariant I (asserted after each step): a request is open => num_adjacent_reads >= 1 and covers chunks[chunk_index..][..num_adjacent_reads]"])
h("c07_adjacent_reads_spec", ["C07"], "quick", "n 1..4 chunks; offsets any u64 <= MAX-2^33, sizes any <= u32::MAX", "adjacent_reads == length of the maximal adjacent run (reference written independently)", ["ChunkReader::adjacent_reads"])
for nm, u in (("s123_i0", "quick"), ("s123_i1", "quick"), ("s123_i2", "quick"), ("s312_i0", "quick"), ("s312_i1", "quick"),
              ("s221_i1_stale", "quick"), ("s221_i0_stale", "quick"), ("s233_i2_stale", "quick")):
    h("c07_new_request_step_" + nm, ["C07", "C17"], u,
      "3 chunks with the sizes and the position in the name (concrete), offsets < 40 symbolic: any order, gaps, adjacency; retry settings symbolic; `_stale`: leftover bytes of the previous run in the buffer",
      "from the between-runs state one poll creates exactly one range request whose (offset,size) span first byte of first .. last byte of last chunk of the maximal adjacent run starting at the position, sets the run counter, clears stale bytes, hands the retry settings on",
      CR, [STUB_REQWEST, STUB_INNER])
h("c07_serve_chunk_step", ["C07", "C08"], "quick", "3 chunks symbolic; position, run counter r>=1, buffered bytes (>= next chunk, <= 6) symbolic",
  "a buffered chunk is served as exactly its `size` bytes in order, without a request; index+1, counter-1, request dropped iff the run is finished; the rest of the buffer is the following bytes",
  CR, [STUB_REQWEST])
h("c07_range_header_step", ["C07", "C08"], "quick", "offset,size any u64 with size>=1 and offset+size<=u64::MAX (full width)",
  "a request issued from state Init carries Range: bytes=offset-(offset+size-1), exactly one request",
  RR, [STUB_REQWEST, STUB_FORMAT])

for nm in ("s123", "s221", "desc"):
    h("c17_http_read_chunks_entry_" + nm, ["C17", "C07", "C08"], "quick",
      "3 chunks with the sizes in the name (concrete), offsets < 40 symbolic: ANY order, gaps, adjacency; retry settings symbolic" if nm != "desc" else "3 chunks at CONCRETE descending offsets 30, 20, 5 (a reader that sorts its list runs code CBMC only gets through on concrete values); retry settings symbolic",
      "through the reader's entry (HttpReader::read_chunk_stream, what read_chunks boxes): the chunk list is taken as given -- the first request starts at the FIRST LISTED chunk and spans its maximal adjacent run -- and the reader's retry settings are handed on to the request",
      ["HttpReader::read_chunk_stream", "HttpReader::retries", "HttpReader::retry_delay"] + CR, [STUB_REQWEST, STUB_INNER])

# ---------------------------------------------------------------------------
# C08
# ---------------------------------------------------------------------------
prop("C08",
     outside="request offsets >= 12, sizes > 5, fragments > 6 bytes, retry budgets > 2 (init step) / > 1 (stream step); more than 3 fragments per reply; body accumulation in ChunkReader beyond what c08_chunk_reader_body_step states; local reader steps as stated per harness; timing",
     assumptions=["invariant R of the range request (asserted after each step): offset+size == end of the range originally asked for; an open body was requested at its first byte and has sent offset-first bytes",
                  "a request with nothing missing (size==0) is never polled: the chunk reader drops the request when it serves the last chunk of the run (c07_serve_chunk_step)"])
h("c08_range_request_init_step_b1", ["C08"], "quick", "progress so far 0..4 bytes, missing 1..5 bytes, retry budget 0..1, delay 0..5 s, next two replies arbitrary (connect failure, fragments <= 6 bytes, clean end / error)",
  "one poll from state Init: every request of the poll asks for [first byte not yet received, end]; <= budget+1 requests; error only when the budget is used up; one sleep of the configured delay per retry; delivered bytes are the next bytes of the range, never beyond it; R again",
  RR, [STUB_REQWEST, STUB_FORMAT, STUB_SLEEP])
h("c08_range_request_init_step", ["C08"], "thorough", "as _b1 with retry budget 0..2 and three arbitrary replies", "as c08_range_request_init_step_b1", RR, [STUB_REQWEST, STUB_FORMAT, STUB_SLEEP])
h("c08_range_request_stream_step", ["C08"], "quick", "open body requested at first<8 having sent 0..4 bytes, missing 1..5; rest of its script and the reply to a re-request arbitrary; budget 0..1",
  "one poll from state Stream: a mid-body failure re-requests from the first byte not yet received (no progress lost, nothing duplicated), early clean end => end of stream with nothing delivered, error only with budget 0",
  RR, [STUB_REQWEST, STUB_FORMAT, STUB_SLEEP])
for nm in ("send", "frag", "both"):
    h("c08_range_request_pending_step_" + nm, ["C08"], "quick", "the send future and/or the first body fragment answer Pending once (which: concrete per instance); offset<8, size 1..5 symbolic",
      "Pending leaves offset/size/budget untouched and the next poll continues with the same request (no duplicate request), delivering the next bytes of the range", RR, [STUB_REQWEST, STUB_FORMAT, STUB_SLEEP])
h("c08_single_retries", ["C08"], "quick", "offset<16, size 1..5, retries 0..2, three arbitrary replies",
  "single() (read_at path) retries from the original offset with the full range each time, <= retries+1 requests, error only when exhausted, body is a prefix of the range",
  ["HttpRangeRequest::single", "HttpRangeRequest::single_fail"], [STUB_REQWEST, STUB_FORMAT, STUB_SLEEP])

# ---------------------------------------------------------------------------
# C04
# ---------------------------------------------------------------------------
IDEAL = "HashSum::b2_digest (Blake2b-512) replaced in the mirror by an ideal digest: injective embedding of the data (<=62 bytes) into 64 bytes; collision resistance is an assumption"
prop("C04",
     outside="the header checksum test inside try_init (Blake2 + prost over symbolic bytes), real decompressors (brotli/lzma/zstd loops), CLI exit status and --verify-output; chunks > 5 bytes; the pinned-header condition is the expression extracted from src/clone_cmd.rs, the surrounding CLI flow is read, not executed",
     assumptions=["Blake2b-512 collision/second-preimage resistance (modelled by the ideal digest)",
                  "an archive's header checksum is a full 64-byte HashSum (Archive::try_init constructs it from 64 bytes)"])
h("c04_verify_step", ["C04"], "quick", "chunk data <= 5 symbolic bytes; expected hash: 64 symbolic bytes truncated to any L in 1..64",
  "ArchiveChunk::verify is Ok iff the first L bytes of the digest equal the expected hash; Ok hands on the unchanged chunk with that hash, Err carries the chunk (no VerifiedChunk exists for a mismatching chunk)",
  ["ArchiveChunk::verify", "HashSum::truncate", "HashSum::eq"], [IDEAL])
for nm in ("2_2", "4_4", "3_2", "0_1"):
    h("c04_verified_means_same_bytes_" + nm, ["C04"], "quick", "fetched / source chunk lengths as in the name (concrete), contents symbolic, hash length 6..64 symbolic (truncated ideal digest still injective)",
      "a fetched chunk that verifies against the hash of source data IS that data (and a chunk of a different length never verifies)", ["ArchiveChunk::verify"], [IDEAL])
h("c04_decompress_raw_identity", ["C04", "C17"], "quick", "chunk <= 5 symbolic bytes, any source_size",
  "a raw (compression == None) chunk reaches verification byte-identical with its expected hash", ["CompressedArchiveChunk::decompress", "CompressedChunk::decompress"])
h("c04_hashsum_eq_is_prefix_compare", ["C04", "C02"], "quick", "two HashSums: 64 symbolic bytes and any length 0..64 each (full width)",
  "HashSum == HashSum compares exactly the first min(len) bytes", ["HashSum::eq"])
h("c04_hashsum_truncate_from", ["C04", "C02"], "quick", "64 symbolic bytes, any truncation lengths",
  "From<&[u8]> keeps the bytes, truncate only ever shortens, slice() is the prefix", ["HashSum::from", "HashSum::truncate", "HashSum::slice"])
h("c04_pinned_header_full_length", ["C04"], "quick", "expected: any 64-byte value; archive header checksum: any 64 bytes",
  "with a full-length --verify-header value the CLI's condition (extracted from src/clone_cmd.rs) refuses iff the checksums differ",
  ["clone_cmd.rs: header checksum condition (extracted)", "HashSum::ne"])
h("c04_pinned_header_short_value", ["C04"], "quick", "expected: any value of length 0..63; archive header checksum: any 64 bytes",
  "with a shorter --verify-header value the clone must still proceed only if the checksums are equal",
  ["clone_cmd.rs: header checksum condition (extracted)", "HashSum::ne"])

# ---------------------------------------------------------------------------
# C08 local reader + first error
# ---------------------------------------------------------------------------
IOR = ["IoChunkReader::poll_chunk"]
MOCK_IO = "mock AsyncRead/AsyncSeek/AsyncWrite implementors in the harness: a read returns any 0<n<=asked bytes of a fixed file (short read), Pending, EOF or an error; seeks record their target and may fail / complete later; writes may fail or accept only a prefix at any call"
for nm, u in (("s2_s3_b0", "quick"), ("s3_s1_b3", "quick"), ("s2_s3_b2_i1", "quick"), ("s1_s4_b2", "quick")):
    h("c08_io_seek_step_" + nm, ["C08", "C17"], u, "two chunks with the sizes, the previous buffer length and the position in the name (concrete), offsets < 20 symbolic (any order); seek may fail / complete later",
      "state Seek: the reader seeks to exactly the chunk's own offset (no adjacency assumed), then asks for exactly `size` bytes with a buffer of exactly that size; a pending seek is completed before any read", IOR, [MOCK_IO])
for nm, u in (("s2_b1", "quick"), ("s3_b0", "quick"), ("s1_b0", "quick"), ("s2_b0", "quick"), ("s3_b1", "quick"), ("s3_b2", "quick"), ("s4_b1", "quick"),
              ("s2_b1_last", "quick"), ("s3_b0_last", "quick")):
    h("c08_io_read_step_" + nm, ["C08", "C17"], u, "chunk size / bytes already read as in the name (concrete), position concrete (first, or `_last`); offsets symbolic; the reader's answer symbolic: short read of 1..4 bytes, Pending, EOF, error",
      "state Read under invariant J: a short read appends exactly n bytes and keeps J, a complete chunk is emitted as exactly its bytes (index+1; the next chunk is located by its own seek, or the cursor is provably at its offset), Pending changes nothing, EOF => UnexpectedEof, errors forwarded",
      IOR, [MOCK_IO])
for nm in ("s2_s3", "s3_s1", "desc"):
    h("c17_io_read_chunks_entry_" + nm, ["C17", "C08"], "quick", "two chunks with the sizes in the name (concrete), offsets < 20 symbolic: ANY order; cursor anywhere" if nm != "desc" else "two chunks at CONCRETE descending offsets 17, 3; cursor anywhere",
      "through the local reader's constructor (IoChunkReader::new, what IoReader::read_chunks boxes): the chunk list is taken as given -- the first poll seeks to the FIRST LISTED chunk's own offset and asks for exactly its size; the rest of the list is untouched",
      ["IoChunkReader::new"] + IOR, [MOCK_IO])
h("c08_io_end_of_list", ["C08"], "quick", "index at the end of a 2-chunk list", "end of list => end of stream without touching the reader", IOR, [MOCK_IO])
h("c08_first_error_ends_stream", ["C08"], "quick", "inner stream of up to 4 items, each Ok/Err/end: symbolic",
  "after the first Err the wrapper yields None forever and never polls the inner stream again", ["StreamUntilFirstError::poll_next"])

# ---------------------------------------------------------------------------
# C06 / C17
# ---------------------------------------------------------------------------
MODEL_MAP = "std HashMap/HashSet replaced (mirror edit) by an ideal-hash model map: keys address the same entry iff Eq AND identical bytes fed to Hasher; 4 slots"
prop("C06",
     outside="more than 2 descriptors; header-region reads (try_init), the in-place scan and the CLI flow incl. block devices (F3 of the property text) are not executable here; 'a chunk found in a seed is never requested' is the composition of this step with the lookup/remove step (entry removed when written)",
     assumptions=["clone-index entries are injected directly; that feeding a chunk removes its entry is c02_index_lookup_step / c13_lookup_then_write_step"])
prop("C17",
     outside="protobuf decoding (unknown fields), Archive::try_init beyond its pre-header arithmetic (the post-decode harness found F15 and stopped finishing after the fix: not registered), real decompression; more than 3 descriptors in chunk_stream",
     assumptions=[])
for nm, u in (("both_raw_comp", "quick"), ("both_comp_raw", "quick"), ("both_nocomp", "quick"), ("first_only", "quick"),
              ("second_only", "quick"), ("second_only_raw", "quick"), ("none", "quick")):
    h("c06_chunk_stream_" + nm, ["C06", "C17"], u,
      "2 descriptors; which of them the clone index still wants, stored/source sizes and the archive-wide compression as in the name (concrete); archive offsets: ANY u64 each (any order/gaps/overlap)",
      "read_chunks receives exactly the descriptors still in the clone index, each once, in descriptor order, (offset,size) verbatim; nothing else is read; item i carries descriptor i's checksum; raw iff stored size == source size else the archive-wide algorithm",
      ["Archive::chunk_stream", "ChunkIndex::contains", "StreamUntilFirstError::poll_next"], [MODEL_MAP, "recording ArchiveReader mock that answers each range with a slice of the requested length"])
for nm in ("tft", "ftt", "ttt", "fft", "ttf"):
    h("c06_chunk_stream3_" + nm, ["C06"] if nm == "tft" else ["C06", "C17"], "quick" if nm == "tft" else "thorough",
      "3 descriptors; wanted subset as in the name (t/f per descriptor, concrete -- `tft`: an unwanted descriptor between two wanted ones), sizes concrete, archive offsets ANY u64 each",
      "as c06_chunk_stream_*: requested ranges are exactly the wanted descriptors' stored ranges in descriptor order, item i is paired with the i-th WANTED descriptor (checksum, raw-vs-compressed)",
      ["Archive::chunk_stream", "ChunkIndex::contains", "StreamUntilFirstError::poll_next"], [MODEL_MAP, "recording ArchiveReader mock that answers each range with a slice of the requested length"], heavy=True)
h("c17_pre_header_magics", ["C17", "C15"], "quick", "every byte string of length 0..16", "verify_pre_header accepts exactly b\"BITA1\\0\" and the legacy b\"\\0BITA1\" prefixes, rejects everything else (incl. < 6 bytes) without panicking", ["Archive::verify_pre_header"])

STUB_TRY_INIT = "try_init: Blake2 over the header and protobuf decoding cannot be encoded; in the mirror (cfg(kani)) the checksum comparison is skipped and the decoded dictionary is the one the harness injects; everything try_init does before the checksum test and WITH the decoded dictionary runs as written; recording ArchiveReader mock (state in plain statics)"
# NOT REGISTERED any more (kept in proofs/archive.rs as the record): c17_try_init_post_decode, c17_try_init_post_decode_desc,
# c15_try_init_offsets_any.  They ran in 60 s of symbolic execution (8 min wall) and found F15; the F15 fix itself -- a
# fallible `collect::<Result<Vec<_>, _>>()` over the descriptors -- made them climb past 22 GB without a verdict in
# 30 minutes, at every unwind bound tried.  A check that cannot finish on the unchanged tree is not registered.
h("c15_try_init_dictionary_size_any", ["C15"], "quick", "pre-header with a valid magic and ANY 8-byte dictionary size",
  "no panic / overflow between the pre-header and the second read, which asks for exactly dictionary + 8 + 64 bytes at offset 14 -- or the archive is refused (found F14)",
  ["Archive::try_init", "Archive::verify_pre_header"], [STUB_TRY_INIT])

# ---------------------------------------------------------------------------
# C02 / C13 / C05
# ---------------------------------------------------------------------------
prop("C02",
     outside="re-chunking of seeds with the archive's configuration, hashing of seed chunks and every CLI stage; Blake2 collisions on truncated hashes; the hit path of CloneOutput::feed as one unit (see C13)",
     assumptions=["a seed can change WHETHER a chunk's bytes come from the archive, never WHICH bytes, provided equal truncated hashes mean equal bytes (collision freeness, not decidable)"])
prop("C13",
     outside="CloneOutput::feed over the REAL write loop as one unit does not get through CBMC (nested coroutines; > 28 GB for every variant tried); it is decided compositionally: feed's own text over a scripted write loop (c13_feed_glue_*), the real write loop on its own (c13_write_offset_step, c05_write_offset_fault_step), both real functions in feed's order (c13_lookup_then_write_step). In-place stripping, reorder_in_place and the source-length bound need multi-offset indexes and the reorder planner (not applicable, as C03)",
     assumptions=["invariant Inv: every clone-index entry is a true (hash,size,offset) of the source that has not been written yet"])
prop("C05",
     outside="the whole 're-run completes' half (rescan + reorder + fetch: C03/C09 territory, not executable as a whole); faults inside reorder_in_place; more than one destination offset in the fault harness",
     assumptions=[])
h("c02_key_consistency", ["C02", "C06"], "quick", "every 64-byte digest, every 64-byte stored key, every hash length 0..64 (full width)",
  "the lookup key built by remove()/contains() equals AND hashes like the stored truncated key iff the first L bytes agree -- a std HashMap finds the entry exactly then",
  ["TruncatedHashSum::sum", "HashSumKey::eq", "HashSumKey::hash", "HashSum::borrow"])
h("c02_index_lookup_step", ["C02", "C06", "C13"], "quick", "hash length 1..8, 8-byte key and digest, any size/offset: symbolic",
  "add_chunk then contains/remove: found iff truncated hashes agree; remove returns the stored size and offset and deletes the entry",
  ["ChunkIndex::add_chunk", "ChunkIndex::contains", "ChunkIndex::remove"], [MODEL_MAP])
h("c13_lookup_then_write_step", ["C13", "C02"], "quick", "index: the entry (key truncated to hash length 1..2, size 1..3, offset < 2^40) plus an unrelated entry; verified chunk with an arbitrary 8-byte hash",
  "the two real functions in feed's order: hit iff truncated hashes agree; then exactly one seek to the entry's offset and the chunk's bytes, all of them, once; the entry is gone, the unrelated entry untouched; miss => nothing removed",
  ["ChunkIndex::remove", "CloneOutput::write_offset"], [MODEL_MAP, MOCK_IO])
h("c13_write_offset_step", ["C13"], "quick", "1..2 destination offsets < 2^40, chunk of 1..3 bytes: symbolic",
  "per offset, in order: one seek to exactly that offset followed by all of the chunk's bytes, once", ["CloneOutput::write_offset"], [MOCK_IO])
h("c13_feed_miss_empty_index", ["C13", "C02"], "quick", "empty index, hash length 0..4, arbitrary chunk hash", "feed() writes nothing and reports 0 when the chunk is not in the index", ["CloneOutput::feed", "ChunkIndex::remove"], [MODEL_MAP, MOCK_IO])
STUB_WRITE_LOOP = "feed glue harnesses run in clone_output_glue.rs, a generated second copy of clone_output.rs whose write_offset BODY is a harness script (records its arguments, answers Ok(any count) or Err); feed's text is the repository's; the real write loop is decided by c13_write_offset_step / c05_write_offset_fault_step"
for nm, d in (("o1_h1", "1 offset, hash length 1"), ("o2_h1", "2 offsets, hash length 1"), ("o2_h2", "2 offsets, hash length 2"),
              ("o1_h2_fail", "1 offset, hash length 2, the write loop fails"), ("o2_h1_fail", "2 offsets, hash length 1, the write loop fails")):
    h("c13_feed_glue_" + nm, ["C13", "C02", "C05"] if "fail" in nm else ["C13", "C02"], "quick",
      d + " (concrete); stored key, fed chunk's 8-byte hash, offsets (any u64), size, the write loop's byte count: symbolic; a second unrelated entry",
      "feed itself on its HIT and miss path over the real index lookup: the write loop is entered exactly once iff the truncated hashes agree, with exactly the entry's offsets (all, in order) and the fed chunk; its byte count / error is handed on unchanged (a failed write never becomes success); the entry is gone afterwards, a second feed of the same chunk writes nothing, unrelated entries stay; the output is never touched outside the write loop",
      ["CloneOutput::feed", "ChunkIndex::remove", "ChunkIndex::contains"], [MODEL_MAP, STUB_WRITE_LOOP])
STUB_SYNC = "feed unit harnesses run in clone_output_sync.rs, a generated copy of clone_output.rs in which `async fn` became `fn` and every `.await` on a leaf future became a single poll that must be ready (verif_now): with always-ready mocks the same computation as the repository's text, but no coroutines; orderings that need a Pending between two awaits are outside it"
for nm, d, faults in (("o1_h1_s2", "1 offset, hash length 1, chunk of 2 bytes", False), ("o2_h2_s3", "2 offsets, hash length 2, chunk of 3 bytes", False),
                      ("o2_h1_s2_faults", "2 offsets, hash length 1, chunk of 2 bytes; the k-th write fails or is torn (k symbolic)", True)):
    h("c13_feed_unit_" + nm, ["C13", "C02", "C05"] if faults else ["C13", "C02"], "quick",
      d + " (concrete); stored key, fed chunk's 8-byte hash, offsets (anywhere in a 12-byte file, incl. overlapping), prior file content: symbolic; a second unrelated entry",
      "feed as ONE unit over the real index lookup and the REAL write loop: a chunk whose truncated hash is in the index is written -- all of its bytes, one seek per location, at the entry's offsets -- and the entry is gone; any other chunk writes nothing and leaves the file untouched; a second feed of the same chunk writes nothing; feed never adds to the index" + ("; a failed write fails the feed, a torn write is completed" if faults else ""),
      ["CloneOutput::feed", "CloneOutput::write_offset", "ChunkIndex::remove", "ChunkIndex::contains", "tokio::io::AsyncWriteExt::write_all", "tokio::io::AsyncSeekExt::seek"], [MODEL_MAP, STUB_SYNC, MOCK_IO], heavy=True)
h("c05_write_offset_fault_step", ["C05", "C13"], "quick", "one destination; the k-th seek fails, the k-th write fails, or the k-th write accepts only 0..2 bytes: k and the prefix symbolic; chunk 1..3 bytes",
  "a failed or torn write/seek at any point => Err; Ok only when every byte reached the output contiguously from the destination (write_all's retry included); 0 bytes accepted => WriteZero error",
  ["CloneOutput::write_offset"], [MOCK_IO])

# ---------------------------------------------------------------------------
# C03 (components): overlap query of the planner's layout map; the executor on scripted plans
# ---------------------------------------------------------------------------
prop("C03",
     outside="the reorder PLANNER (ChunkIndex::reorder_ops / build_reorder_ops: DFS over std containers, sort, Vec::insert) and strip_chunks_already_in_place (Vec::remove at a symbolic position) do not get through CBMC and are NOT executed: the executor scenarios take plans that were derived by hand from the planner's algorithm for concrete layouts, so a planner that emits a wrong plan is outside the claim; executor plans with more than one operation (two or more do not finish: values that live in the coroutine are symbolic to CBMC) -- so the buffered-chunk path (StoreInMem then Copy from memory) and cyclic moves are NOT covered; chunks > 4 bytes, files > 12 bytes; the CLI flow (rescan, resize of the output file)",
     assumptions=["the layout map holds pairwise disjoint locations (first locations of distinct chunks of one chunked file)",
                  "std BTreeMap replaced by a sorted-vector model with the same range/insert/remove semantics (mirror edit)",
                  "executor scenarios: write_offset is the scripted one of clone_output_glue.rs (it stores the bytes into the mock file), the planner is scripted; reads go through tokio's real seek/read_exact futures"])
h("c03_overlap_query_exact", ["C03"], "quick", "layout of 3 chunks at ANY pairwise disjoint positions (offsets < 2^40, sizes 1..2^24); query range ANY (offset < 2^40, size 1..2^24)",
  "iter_overlapping yields exactly the chunks that share at least one byte with the range (each once, highest offset first): no chunk a move would overwrite is missed, none is invented",
  ["ChunkLocationMap::iter_overlapping", "ChunkLocationMap::insert", "ChunkOffset::end", "ChunkOffset::cmp"])
h("c03_layout_map_insert_remove", ["C03"], "quick", "2 disjoint locations in either order, symbolic",
  "remove takes out exactly the given (offset,size) location; a removed location is no longer reported by the overlap query", ["ChunkLocationMap::remove", "ChunkLocationMap::iter_overlapping"])
EXEC = ["CloneOutput::reorder_in_place", "tokio::io::AsyncReadExt::read_exact", "tokio::io::AsyncSeekExt::seek"]
STUB_PLANNER = "planner scripted: bool-guarded prologues (cfg(kani), off by default) in strip_chunks_already_in_place and reorder_ops hand the executor a concrete plan; " + STUB_WRITE_LOOP.replace("records its arguments, answers Ok(any count) or Err", "here it stores the chunk's bytes into the mock file at every offset it is given, or fails at a symbolic call")
for nm, d, c in (("min", "one chunk moved: A(2)@3 -> @0", ""),
              ("min_faults", "as min; the k-th read or the k-th write fails (k symbolic, incl. none)", "; a failed read or write makes the run fail (never a success with a wrong file)"),
              ("two_dests", "one chunk copied to two destinations: D(2)@6 -> @8,@10; a second chunk still to be fetched stays in the clone index", "")):
    h("c03_exec_" + nm, ["C03"], "thorough" if "faults" in nm else "quick", d + "; layout and plan concrete, EVERY byte of the 12-byte prior file content symbolic",
      "whole run of the real reorder_in_place: after a run that reports success every moved chunk's ORIGINAL bytes are at all of its destinations (a chunk buffered by StoreInMem is written from the buffer, not re-read after it was overwritten), bytes outside the destinations are untouched, moved chunks have left the clone index, the moved-byte count is right" + c,
      EXEC, [MODEL_MAP, STUB_PLANNER], heavy=True)

# ---------------------------------------------------------------------------
# C15
# ---------------------------------------------------------------------------
prop("C15",
     outside="the protobuf decoder and Blake2 over symbolic bytes (prost's per-byte decoding into Vecs does not finish; try_init runs with both as environment), the allocation of dictionary-size bytes by the readers' read_at, lzma/zstd/brotli decoders, info_cmd printing; parameters > 9 in the `next` harnesses (constructors at full width); debug-profile semantics (overflow checks on): failures that only wrap in release are reported as such in DESIGN.md",
     assumptions=["Kani checks every reachable panic, arithmetic overflow, out-of-bounds index and unwrap as a property, so a harness that merely runs a consumer on unconstrained values decides 'no panic within the bound'"])
h("c15_params_any", ["C15"], "quick", "all six chunker parameters and both compression fields: any u32/i32",
  "chunker_config_from_params / compression_from_dictionary never panic; unknown enum values are errors", ["chunker_config_from_params", "compression_from_dictionary"])
h("c15_source_order_valid", ["C15", "C17"], "quick", "3 descriptors, 2 rebuild indexes: any usize", "whatever source_order_is_valid (called by try_init) accepts iterates without a panic, yielding running offsets and the indexed descriptors", ["source_order_is_valid", "Archive::iter_source_chunks"])
h("c15_server_misbehaves_range_request", ["C15"], "quick", "open body at first<8, sent<=4, missing 1..4; one fragment of 0..6 bytes that stays inside what is missing; error/clean end; re-request reply arbitrary",
  "no panic/overflow in the request state machine", ["HttpRangeRequest::poll_read", "HttpRangeRequest::poll_read_fail"], [STUB_REQWEST, STUB_FORMAT, STUB_SLEEP])
h("c15_server_sends_too_much", ["C15"], "quick", "as above with a fragment LONGER than what is missing", "a server that sends more than the range asked for must not panic the request state machine", ["HttpRangeRequest::poll_read_fail"], [STUB_REQWEST, STUB_FORMAT, STUB_SLEEP])
h("c15_single_declared_length_any", ["C15"], "quick", "offset<16, size 1..5, one arbitrary reply; the reply's declared Content-Length: ANY u64 or none",
  "the one-shot read behind read_at (header region over HTTP) never panics and never sizes an allocation by what the server declares", ["HttpRangeRequest::single", "HttpRangeRequest::single_fail"], [STUB_REQWEST, STUB_FORMAT, STUB_SLEEP])
for nm, d in (("empty_archive", "an archive with NO chunk descriptors (what `bita compress` writes for an empty source)"), ("one_chunk", "1 descriptor, any source size"), ("two_chunks", "2 descriptors, any source sizes")):
    h("c15_info_average_" + nm, ["C15"], "quick", d,
      "the 'Average chunk size' expression of `bita info` / of the summary `bita compress` prints (extracted textually from src/info_cmd.rs on every run) evaluates without a panic and is the mean source size (found F16: division by zero for an archive without chunks)",
      ["info_cmd.rs: average chunk size expression (extracted)", "Archive::chunk_descriptors"])
h("c15_chunk_reader_zero_size", ["C15"], "quick", "2 chunks, the first with stored size 0; one answer of the inner request", "a descriptor with stored size 0 must not panic the chunk reader", CR, [STUB_REQWEST, STUB_INNER])
h("c15_accepted_params_run_rollsum", ["C15"], "quick", "RollSum: min, max, window 0..9, filter bits any u32; 6 symbolic bytes",
  "every parameter set chunker_config_from_params ACCEPTS constructs and runs one next() without a panic and never yields an empty chunk", ["chunker_config_from_params"] + RHC + RS)
h("c15_accepted_params_run_buzhash", ["C15"], "quick", "BuzHash: min, max 0..9, window 0..3, filter bits any u32; 6 symbolic bytes",
  "as above for BuzHash", ["chunker_config_from_params"] + RHC + BUZ)
h("c15_accepted_params_run_fixed", ["C15"], "quick", "FixedSize: size 0..9; 6 symbolic bytes", "as above for FixedSize", ["chunker_config_from_params", "FixedSizeChunker::next"])
h("c15_accepted_params_arith_full_width", ["C15"], "quick", "all parameters any u32",
  "for every ACCEPTED parameter set: mask(), hash_input_limit and info's chunk_target_average do not overflow; window in 1..=max, min<=max", ["chunker_config_from_params", "RollingHashChunker::new", "FilterBits::mask", "FilterBits::chunk_target_average"])
h("c15_rollsum_arith_any_window", ["C15"], "quick", "window: any value 1..=u32::MAX (symbolic-size allocation, not touched)", "RollSum::new and one input never overflow (finding F13, fixed)", RS)
h("c08_io_zero_size_range", ["C15", "C08"], "quick", "one zero-length range after a previous chunk of 0..3 bytes", "a zero-length range yields zero bytes, not the previous chunk's", IOR, [MOCK_IO])

# ---------------------------------------------------------------------------
# C09 streaming wrapper: scenario runs (every length concrete, every source byte symbolic)
# ---------------------------------------------------------------------------
STREAM = ["StreamingChunker::new", "StreamingChunker::poll_next", "FixedSizeChunker::next"]
REFILL8 = "REFILL_SIZE scaled from 1 MiB to 8 in the mirror (cfg(kani)); a 1 MiB buffer object crashes CBMC"
for nm, d, u in (("a", "7 bytes, fixed size 3, reads 2,Pending,3,2,EOF", "quick"), ("c", "5 bytes, fixed size 2, one byte per read with a Pending before each", "quick"),
                 ("e", "empty source", "quick"), ("b", "6 bytes, fixed size 3 (no tail), reads 3,3,EOF", "thorough")):
    h("c09_stream_run_" + nm, ["C09"], u, d + "; every source byte symbolic",
      "the whole multi-poll run of the streaming wrapper over the real FixedSizeChunker: offsets contiguous from 0, every item exactly the source bytes at its offset, every chunk but the last of the fixed size, the chunks tile the source, then end of stream",
      STREAM, [REFILL8])
MARKER_QUICK = ['c09_stream_marker_p00_r23', 'c09_stream_marker_p00_r1p22', 'c09_stream_marker_p00_r32', 'c09_stream_marker_p02_r1p22', 'c09_stream_marker_p04_r23', 'c09_stream_marker_p04_r1p22', 'c09_stream_marker_p06_r1p22', 'c09_stream_marker_p08_r23', 'c09_stream_marker_p08_r1p22', 'c09_stream_marker_p08_r32', 'c09_stream_marker_p10_r1p22', 'c09_stream_marker_p12_r23', 'c09_stream_marker_p12_r1p22', 'c09_stream_marker_p14_r1p22', 'c09_stream_marker_p16_r23', 'c09_stream_marker_p16_r1p22', 'c09_stream_marker_p16_r32', 'c09_stream_marker_p18_r1p22', 'c09_stream_marker_p20_r23', 'c09_stream_marker_p20_r1p22', 'c09_stream_marker_p22_r1p22', 'c09_stream_marker_p24_r23', 'c09_stream_marker_p24_r1p22', 'c09_stream_marker_p24_r32', 'c09_stream_marker_p26_r1p22', 'c09_stream_marker_p28_r23', 'c09_stream_marker_p28_r1p22', 'c09_stream_marker_p30_r1p22']
MARKER_SLOW = ['c09_stream_marker_p18_r23', 'c09_stream_marker_p19_r23', 'c09_stream_marker_p20_r32', 'c09_stream_marker_p21_r32', 'c09_stream_marker_p22_r32', 'c09_stream_marker_p23_r32']
for nm in MARKER_QUICK + MARKER_SLOW:
    pat = int(nm.split("_p")[1][:2])
    sc = {"r23": "reads 2,3,EOF", "r1p22": "reads 1,Pending,2,2,EOF", "r32": "reads 3,2,EOF"}[nm.split("_")[-1]]
    ends = [j + 1 for j in range(5) if pat & (1 << j) or j == 4]
    h(nm, ["C09"], "quick" if nm in MARKER_QUICK else "thorough",
      "5 symbolic source bytes; a chunker that puts its boundaries after stream positions %s (stands for any content-defined chunker on any content with those boundaries; a function of stream position and buffer length only); %s" % (ends, sc),
      "the streaming wrapper reproduces exactly those boundaries whatever the read script: offsets contiguous, item bytes == source bytes, tail once, then end (34 of the 96 placement x script combinations finish; the others run out of memory and are not registered)",
      ["StreamingChunker::new", "StreamingChunker::poll_next"], [REFILL8])

# ---------------------------------------------------------------------------
# C08 body accumulation: scenario runs (every length concrete, every byte of the served file symbolic)
# ---------------------------------------------------------------------------
for nm, d in (("a", "3 adjacent chunks (2,3,1 bytes); fragments 1,4,1: a fragment ends inside a chunk, one spans two chunks"),
              ("b", "same chunks, the whole run in one fragment"), ("c", "same chunks, fragments 3,3"),
              ("d", "same chunks, body ends cleanly after 4 of 6 bytes: one chunk, then UnexpectedEnd -- never a short chunk"),
              ("e", "2 adjacent chunks (3,2); fragments 2, Pending, 3"), ("f", "two runs separated by a gap, one fragment per request"),
              ("g", "two chunks stored in descending order, fragments 1,2 / 2")):
    h("c08_body_run_" + nm, ["C08", "C07"] if nm in ("f", "g") else ["C08"], "quick", d + "; every byte of the served file symbolic",
      "whole multi-poll run of ChunkReader::poll_read (extend / split_to / clear / UnexpectedEnd mapping): item i is exactly the bytes of range i, in order; early end is an error",
      CR, [STUB_REQWEST, STUB_INNER])
