//! `tokio` as seen by the mirrored bitar sources: everything is the real tokio
//! except `time::{sleep, Sleep}`, which need a runtime timer driver.
pub use real_tokio::*;
pub mod time {
    use std::future::Future;
    use std::pin::Pin;
    use std::task::{Context, Poll};
    use std::time::Duration;

    pub static mut SLEEP_CALLS: usize = 0;
    pub static mut LAST_SLEEP: Duration = Duration::from_secs(0);

    pub struct Sleep {
        _d: Duration,
    }
    pub fn sleep(d: Duration) -> Sleep {
        unsafe {
            SLEEP_CALLS += 1;
            LAST_SLEEP = d;
        }
        Sleep { _d: d }
    }
    impl Future for Sleep {
        type Output = ();
        fn poll(self: Pin<&mut Self>, _cx: &mut Context<'_>) -> Poll<()> {
            Poll::Ready(())
        }
    }
}
