use super::*;
use std::pin::Pin;
use std::task::{Context, Poll, Waker};
use std::future::Future;

struct Out { pos: u64, wr_off: [u64; 4], wr_len: [usize; 4], wr_first: [u8; 4], n: usize, fail_at: usize }
impl AsyncWrite for Out {
    fn poll_write(mut self: Pin<&mut Self>, _cx: &mut Context<'_>, buf: &[u8]) -> Poll<io::Result<usize>> {
        let me = &mut *self;
        if me.n == me.fail_at { return Poll::Ready(Err(io::ErrorKind::Other.into())); }
        assert!(me.n < 4);
        me.wr_off[me.n] = me.pos; me.wr_len[me.n] = buf.len(); me.wr_first[me.n] = if buf.len() > 0 { buf[0] } else { 0 };
        me.n += 1; me.pos += buf.len() as u64;
        Poll::Ready(Ok(buf.len()))
    }
    fn poll_flush(self: Pin<&mut Self>, _cx: &mut Context<'_>) -> Poll<io::Result<()>> { Poll::Ready(Ok(())) }
    fn poll_shutdown(self: Pin<&mut Self>, _cx: &mut Context<'_>) -> Poll<io::Result<()>> { Poll::Ready(Ok(())) }
}
impl AsyncSeek for Out {
    fn start_seek(mut self: Pin<&mut Self>, position: SeekFrom) -> io::Result<()> {
        if let SeekFrom::Start(p) = position { self.pos = p; Ok(()) } else { panic!("seek") }
    }
    fn poll_complete(self: Pin<&mut Self>, _cx: &mut Context<'_>) -> Poll<io::Result<u64>> { Poll::Ready(Ok(self.pos)) }
}

static DATA: [u8; 4] = [7, 8, 9, 10];

#[kani::proof]
#[kani::unwind(10)]
fn feed_step() {
    let k: [u8; 2] = kani::any();      // stored key (hash length 2)
    let h: [u8; 4] = kani::any();      // chunk's full hash (4 bytes stand for 64)
    let off: u64 = kani::any(); kani::assume(off < 16);
    let size: usize = kani::any(); kani::assume(size >= 1 && size <= 4);
    let mut idx = ChunkIndex::new_empty(2);
    idx.add_chunk(HashSum::from(&k[..]), size, &[off]);
    let fail_at: usize = kani::any();
    let out = Out { pos: 0, wr_off: [0; 4], wr_len: [0; 4], wr_first: [0; 4], n: 0, fail_at };
    let mut co = CloneOutput::new(out, idx);
    let v = VerifiedChunk { chunk: Chunk(bytes::Bytes::from_static(&DATA[..size])), hash_sum: HashSum::from(&h[..]) };
    let waker = Waker::noop();
    let mut cx = Context::from_waker(&waker);
    let r = {
        let fut = co.feed(&v);
        tokio::pin!(fut);
        match fut.as_mut().poll(&mut cx) { Poll::Ready(r) => r, Poll::Pending => { assert!(false); unreachable!() } }
    };
    let hit = h[0] == k[0] && h[1] == k[1];
    match r {
        Ok(n) => {
            if hit { assert!(n == size && co.inner.n == 1 && co.inner.wr_off[0] == off && co.inner.wr_len[0] == size && co.is_empty()); assert!(fail_at != 0); }
            else { assert!(n == 0 && co.inner.n == 0 && co.len() == 1); }
        }
        Err(e) => { assert!(hit && fail_at == 0); std::mem::forget(e); }
    }
    std::mem::forget(co); std::mem::forget(v);
}
