use super::*;
use crate::rolling_hash::RollSum;
use crate::chunker::FilterBits;

fn rollsum_direct(win: &[u8]) -> u32 {
    let w = win.len() as u32;
    let mut s1: u32 = 0;
    let mut s2: u32 = 0;
    let mut i = 0;
    while i < win.len() {
        let v = win[i] as u32 + 31;
        s1 = s1.wrapping_add(v);
        s2 = s2.wrapping_add((w - i as u32).wrapping_mul(v));
        i += 1;
    }
    // constant offset from the implementation's initial state (bup compatible)
    let c = 31u32.wrapping_mul(w).wrapping_mul(w.wrapping_sub(3)) / 2;
    let _ = c;
    s2 = s2.wrapping_add((31i64 * w as i64 * (w as i64 - 3) / 2) as u32);
    (s1 << 16) | (s2 & 0xffff)
}

// First chunk of a stream, RollSum, symbolic small config: boundary at first e >= max(min,1) where
// direct hash of zero-padded trailing window matches, else at max; None iff no such e <= len and len < max.
#[kani::proof]
#[kani::unwind(10)]
fn rollsum_first_chunk_rule() {
    const N: usize = 8;
    let data: [u8; N] = kani::any();
    let len: usize = kani::any();
    kani::assume(len >= 1 && len <= N);
    let w: usize = kani::any(); let min: usize = kani::any(); let max: usize = kani::any(); let bits: u32 = kani::any();
    kani::assume(w >= 1 && w <= 3 && min <= max && w <= max && max >= 1 && max <= 6 && bits >= 1 && bits <= 3);
    let cfg = FilterConfig { filter_bits: FilterBits(bits), min_chunk_size: min, max_chunk_size: max, window_size: w };
    let mask = cfg.filter_bits.mask();
    let mut c = RollingHashChunker::new(RollSum::new(w), &cfg);
    let mut buf = BytesMut::new();
    buf.extend_from_slice(&data[..len]);
    let got = c.next(&mut buf).map(|ch| { let n = ch.len(); std::mem::forget(ch); n });
    // reference
    let mut want: Option<usize> = None;
    let lo = if min == 0 { 1 } else { min };
    let mut e = 1;
    while e <= N {
        if want.is_none() && e <= len && e >= lo && e <= max {
            // trailing window, zero padded on the left
            let mut win = [0u8; 3];
            let mut k = 0;
            while k < w { let idx = e as isize - w as isize + k as isize; win[k] = if idx >= 0 { data[idx as usize] } else { 0 }; k += 1; }
            let h = rollsum_direct(&win[..w]);
            if (h | mask) == h || e == max { want = Some(e); }
        }
        e += 1;
    }
    assert!(got == want);
    std::mem::forget(buf); std::mem::forget(c);
}
