use super::*;
use reqwest::{Reply, SCRIPT, MAX_FRAG, MAX_REQ, content};
use std::task::Waker;

fn any_reply() -> Reply {
    let frags: [u8; MAX_FRAG] = kani::any();
    Reply { connect_fail: kani::any(), frags, end_with_error: kani::any() }
}

// Retry/resume: every (re)request starts at first byte not yet received; bytes delivered are exactly the range.
#[kani::proof]
#[kani::unwind(8)]
fn range_request_resume() {
    let offset: u64 = kani::any();
    let size: u64 = kani::any();
    kani::assume(offset < 16 && size >= 1 && size <= 6);
    let retries: u32 = kani::any();
    kani::assume(retries <= 2);
    unsafe {
        let mut k = 0;
        while k < MAX_REQ { SCRIPT.connect_fail[k] = kani::any(); SCRIPT.frags[k] = kani::any(); SCRIPT.end_err[k] = kani::any(); k += 1; }
        // server never sends more than requested in total per reply (well-behaved when it answers)
    }
    let rb = reqwest::Client::new().get(reqwest::Url(String::new()));
    let mut req = HttpRangeRequest::new(rb, offset, size).retry(retries, Duration::from_secs(1));
    let waker = Waker::noop();
    let mut cx = Context::from_waker(&waker);
    let mut received: u64 = 0;
    let mut polls = 0;
    while polls < 7 {
        polls += 1;
        // precondition for well-behaved server: reply k never sends beyond the requested range
        match req.poll_read(&mut cx) {
            Poll::Pending => { assert!(false); }
            Poll::Ready(None) => break,
            Poll::Ready(Some(Err(e))) => { std::mem::forget(e); break; }
            Poll::Ready(Some(Ok(item))) => {
                let n = item.len() as u64;
                let mut j = 0;
                while j < n { assert!(item[j as usize] == content(offset + received + j)); j += 1; }
                received += n;
                std::mem::forget(item);
                if received >= size { break; }
            }
        }
    }
    // every request k asked for exactly [offset + received_before_k, offset+size-1]
    let nreq = unsafe { SCRIPT.n_requests };
    assert!(nreq as u32 <= retries + 1);
    let mut k = 0;
    while k < nreq {
        let (first, last) = unsafe { SCRIPT.log[k] };
        assert!(last == offset + size - 1);
        assert!(first >= offset && first <= offset + received);
        k += 1;
    }
    std::mem::forget(req);
}
