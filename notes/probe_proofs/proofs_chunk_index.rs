use super::*;

#[kani::proof]
#[kani::unwind(5)]
fn strip_one() {
    let o1: u64 = kani::any(); let t1: u64 = kani::any();
    kani::assume(o1 < 8 && t1 < 8);
    let mut cur = ChunkIndex::new_empty(1);
    cur.add_chunk(HashSum::from(&[1u8]), 2, &[o1]);
    let mut tgt = ChunkIndex::new_empty(1);
    tgt.add_chunk(HashSum::from(&[1u8]), 2, &[t1]);
    let (n, sz) = cur.strip_chunks_already_in_place(&mut tgt);
    if o1 == t1 { assert!(n == 1 && sz == 2 && tgt.len() == 0); } else { assert!(n == 0 && tgt.len() == 1); }
    std::mem::forget(cur); std::mem::forget(tgt);
}
