use super::*;
use reqwest::{Reply, SCRIPT, MAX_FRAG, MAX_REQ, content};
use std::task::Waker;

#[kani::proof]
#[kani::unwind(14)]
fn adjacent_runs_requests() {
    // 3 chunks, symbolic offsets/sizes
    let o: [u8; 3] = kani::any();
    let s: [u8; 3] = kani::any();
    kani::assume(s[0] >= 1 && s[0] <= 3 && s[1] >= 1 && s[1] <= 3 && s[2] >= 1 && s[2] <= 3);
    kani::assume(o[0] < 16 && o[1] < 16 && o[2] < 16);
    let chunks = vec![
        ChunkOffset::new(o[0] as u64, s[0] as usize),
        ChunkOffset::new(o[1] as u64, s[1] as usize),
        ChunkOffset::new(o[2] as u64, s[2] as usize),
    ];
    // well-behaved server: one fragment with the full range per request
    unsafe {
        let mut k = 0;
        while k < MAX_REQ {
            SCRIPT.connect_fail[k] = false; SCRIPT.frags[k] = [9, 0, 0, 0]; SCRIPT.end_err[k] = false;
            k += 1;
        }
    }
    let mut reader = HttpReader::from_request(reqwest::Client::new().get(reqwest::Url(String::new())));
    let mut cr = ChunkReader {
        request_builder: &reader.request_builder,
        chunk_buf: BytesMut::new(),
        chunk_index: 0,
        num_adjacent_reads: 0,
        chunks,
        retry_count: 0,
        retry_delay: Duration::from_secs(0),
        request: None,
    };
    let waker = Waker::noop();
    let mut cx = Context::from_waker(&waker);
    let mut i = 0;
    while i < 3 {
        match cr.poll_read(&mut cx) {
            Poll::Ready(Some(Ok(b))) => {
                assert!(b.len() == s[i] as usize);
                let mut j = 0;
                while j < b.len() { assert!(b[j] == content(o[i] as u64 + j as u64)); j += 1; }
                std::mem::forget(b);
            }
            _ => { assert!(false); }
        }
        i += 1;
    }
    // expected runs
    let adj01 = o[0] as u64 + s[0] as u64 == o[1] as u64;
    let adj12 = o[1] as u64 + s[1] as u64 == o[2] as u64;
    let expected = 1 + (!adj01) as usize + (!adj12) as usize;
    let n = unsafe { SCRIPT.n_requests };
    assert!(n == expected);
    let (f0, _l0) = unsafe { SCRIPT.log[0] };
    assert!(f0 == o[0] as u64);
    std::mem::forget(cr);
    std::mem::forget(reader);
}

#[kani::proof]
#[kani::unwind(5)]
fn adjacent_reads_spec() {
    let o: [u64; 3] = kani::any();
    let s: [usize; 3] = kani::any();
    kani::assume(s[0] <= 1 << 32 && s[1] <= 1 << 32 && s[2] <= 1 << 32);
    kani::assume(o[0] <= 1 << 40 && o[1] <= 1 << 40 && o[2] <= 1 << 40);
    let chunks = [ChunkOffset::new(o[0], s[0]), ChunkOffset::new(o[1], s[1]), ChunkOffset::new(o[2], s[2])];
    let n: usize = kani::any();
    kani::assume(n >= 1 && n <= 3);
    let got = ChunkReader::adjacent_reads(&chunks[..n]);
    let adj01 = n >= 2 && o[0] + s[0] as u64 == o[1];
    let adj12 = n >= 3 && o[1] + s[1] as u64 == o[2];
    let want = if !adj01 { 1 } else if !adj12 { 2 } else { 3 };
    assert!(got == want);
}

#[kani::proof]
#[kani::unwind(14)]
fn chunk_reader_first_poll() {
    let o: [u8; 2] = kani::any();
    let s: [u8; 2] = kani::any();
    kani::assume(s[0] >= 1 && s[0] <= 3 && s[1] >= 1 && s[1] <= 3);
    kani::assume(o[0] < 16 && o[1] < 16);
    let mut chunks = Vec::with_capacity(2);
    chunks.push(ChunkOffset::new(o[0] as u64, s[0] as usize));
    chunks.push(ChunkOffset::new(o[1] as u64, s[1] as usize));
    unsafe { SCRIPT.frags[0] = [9, 0, 0, 0]; SCRIPT.frags[1] = [9, 0, 0, 0]; }
    let rb = reqwest::Client::new().get(reqwest::Url(String::new()));
    let mut cr = ChunkReader {
        request_builder: &rb,
        chunk_buf: BytesMut::new(),
        chunk_index: 0,
        num_adjacent_reads: 0,
        chunks,
        retry_count: 0,
        retry_delay: Duration::from_secs(0),
        request: None,
    };
    let waker = Waker::noop();
    let mut cx = Context::from_waker(&waker);
    match cr.poll_read(&mut cx) {
        Poll::Ready(Some(Ok(b))) => { assert!(b.len() == s[0] as usize); std::mem::forget(b); }
        _ => { assert!(false); }
    }
    std::mem::forget(cr);
}
