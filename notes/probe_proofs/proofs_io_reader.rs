use super::*;
use std::task::Waker;

struct Mock { pos: u64, reads: [u8; 4], k: usize, seeks: usize }
static FILE: [u8; 32] = { let mut t = [0u8; 32]; let mut i = 0; while i < 32 { t[i] = (i as u8).wrapping_mul(5).wrapping_add(1); i += 1; } t };
impl AsyncRead for Mock {
    fn poll_read(mut self: Pin<&mut Self>, _cx: &mut Context<'_>, buf: &mut ReadBuf<'_>) -> Poll<io::Result<()>> {
        let me = &mut *self;
        let avail = if me.pos as usize >= 32 { 0 } else { 32 - me.pos as usize };
        let mut n = if me.k < 4 { let v = me.reads[me.k]; me.k += 1; v as usize } else { avail };
        if n == 0 && me.k <= 4 { return Poll::Pending; }
        if n > avail { n = avail; }
        if n > buf.remaining() { n = buf.remaining(); }
        buf.put_slice(&FILE[me.pos as usize..me.pos as usize + n]);
        me.pos += n as u64;
        Poll::Ready(Ok(()))
    }
}
impl AsyncSeek for Mock {
    fn start_seek(mut self: Pin<&mut Self>, position: io::SeekFrom) -> io::Result<()> {
        if let io::SeekFrom::Start(p) = position { self.pos = p; self.seeks += 1; Ok(()) } else { panic!("unexpected seek") }
    }
    fn poll_complete(self: Pin<&mut Self>, _cx: &mut Context<'_>) -> Poll<io::Result<u64>> { Poll::Ready(Ok(self.pos)) }
}

#[kani::proof]
#[kani::unwind(8)]
fn io_chunk_reader_two() {
    let o: [u8; 2] = kani::any(); let s: [u8; 2] = kani::any();
    kani::assume(o[0] < 16 && o[1] < 16 && s[0] <= 3 && s[1] <= 3);
    let mut chunks = Vec::with_capacity(2);
    chunks.push(ChunkOffset::new(o[0] as u64, s[0] as usize));
    chunks.push(ChunkOffset::new(o[1] as u64, s[1] as usize));
    let mut m = Mock { pos: 0, reads: kani::any(), k: 0, seeks: 0 };
    let mut r = IoChunkReader::new(&mut m, chunks);
    let waker = Waker::noop();
    let mut cx = Context::from_waker(&waker);
    let mut i = 0; let mut polls = 0;
    while i < 2 && polls < 7 {
        polls += 1;
        match r.poll_chunk(&mut cx) {
            Poll::Pending => {}
            Poll::Ready(Some(Ok(b))) => {
                assert!(b.len() == s[i] as usize);
                let mut j = 0; while j < b.len() { assert!(b[j] == FILE[o[i] as usize + j]); j += 1; }
                std::mem::forget(b); i += 1;
            }
            _ => { assert!(false); }
        }
    }
    std::mem::forget(r);
}

#[kani::proof]
#[kani::unwind(6)]
fn io_chunk_reader_step() {
    // one chunk, arbitrary short reads, at most 4 polls
    let o: u8 = kani::any(); let s: u8 = kani::any();
    kani::assume(o < 16 && s <= 3);
    let mut chunks = Vec::with_capacity(1);
    chunks.push(ChunkOffset::new(o as u64, s as usize));
    let mut m = Mock { pos: 0, reads: kani::any(), k: 0, seeks: 0 };
    let mut r = IoChunkReader::new(&mut m, chunks);
    let waker = Waker::noop();
    let mut cx = Context::from_waker(&waker);
    let mut polls = 0;
    while polls < 4 {
        polls += 1;
        match r.poll_chunk(&mut cx) {
            Poll::Pending => {}
            Poll::Ready(Some(Ok(b))) => {
                assert!(b.len() == s as usize);
                let mut j = 0; while j < b.len() { assert!(b[j] == FILE[o as usize + j]); j += 1; }
                std::mem::forget(b); break;
            }
            _ => { assert!(false); }
        }
    }
    std::mem::forget(r);
}
