use super::*;

// Window-only: after init of w bytes and k inputs, a hasher that saw prefix P + S and one that
// saw only S (same last w bytes) have equal sums, for every later input.
#[kani::proof]
#[kani::unwind(258)]
fn buzhash_window_only() {
    const W: usize = 3;
    let a: [u8; 8] = kani::any(); // stream A: a[0..8]
    // stream B = a[2..8] (drops a 2-byte prefix)
    let mut ha = BuzHash::new(W);
    let mut hb = BuzHash::new(W);
    let mut i = 0;
    while i < 8 {
        if !ha.window_full { ha.init(a[i]); } else { ha.input(a[i]); }
        if i >= 2 {
            if !hb.window_full { hb.init(a[i]); } else { hb.input(a[i]); }
        }
        // both have a full window covering the same last W bytes from i >= 2 + W - 1
        if i >= 2 + W - 1 {
            assert!(ha.sum() == hb.sum());
        }
        i += 1;
    }
    std::mem::forget(ha); std::mem::forget(hb);
}
