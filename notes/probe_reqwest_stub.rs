//! Nondeterministic stand-in for the parts of reqwest that bitar uses.
use bytes::Bytes;
use std::fmt;
use std::future::Future;
use std::pin::Pin;
use std::task::{Context, Poll};

pub mod header {
    pub const RANGE: &str = "range";
}

#[derive(Clone, Debug, PartialEq, Eq)]
pub struct Url(pub String);
impl Url {
    pub fn parse(s: &str) -> Result<Url, Error> {
        Ok(Url(s.to_string()))
    }
}

#[derive(Debug)]
pub struct Error;
impl fmt::Display for Error {
    fn fmt(&self, f: &mut fmt::Formatter<'_>) -> fmt::Result {
        write!(f, "stub error")
    }
}
impl std::error::Error for Error {}

pub const MAX_REQ: usize = 4;
pub const MAX_FRAG: usize = 4;
pub const DATA_LEN: usize = 32;

/// What the scripted server does with the k-th request.
#[derive(Clone, Copy)]
pub struct Reply {
    /// fail before any response
    pub connect_fail: bool,
    /// body fragment lengths (0 = unused slot)
    pub frags: [u8; MAX_FRAG],
    /// after the fragments: true = transport error, false = clean end of body
    pub end_with_error: bool,
}

pub struct Script {
    pub connect_fail: [bool; MAX_REQ],
    pub frags: [[u8; MAX_FRAG]; MAX_REQ],
    pub end_err: [bool; MAX_REQ],
    pub n_requests: usize,
    /// (first, last) inclusive, as parsed from the Range header value
    pub log: [(u64, u64); MAX_REQ],
    pub clonable: bool,
}
pub static mut SCRIPT: Script = Script {
    connect_fail: [false; MAX_REQ],
    frags: [[0; MAX_FRAG]; MAX_REQ],
    end_err: [false; MAX_REQ],
    n_requests: 0,
    log: [(0, 0); MAX_REQ],
    clonable: true,
};
pub static CONTENT: [u8; DATA_LEN] = {
    let mut t = [0u8; DATA_LEN];
    let mut i = 0;
    while i < DATA_LEN { t[i] = (i as u8).wrapping_mul(7).wrapping_add(3); i += 1; }
    t
};
pub fn content(i: u64) -> u8 {
    CONTENT[i as usize]
}

pub struct Client;
impl Client {
    pub fn new() -> Self {
        Client
    }
    pub fn get(&self, _url: Url) -> RequestBuilder {
        RequestBuilder { range: None }
    }
}

pub struct RequestBuilder {
    range: Option<(u64, u64)>,
}
/// What `format!(lit, a, b)` would have rendered, kept unrendered.
pub struct Formatted { pub lit: &'static str, pub a: u64, pub b: u64 }
fn parse_range(v: &Formatted) -> (u64, u64) {
    let l = v.lit.as_bytes();
    let want = b"bytes={}-{}";
    assert!(l.len() == want.len());
    let mut i = 0;
    while i < want.len() { assert!(l[i] == want[i]); i += 1; }
    (v.a, v.b)
}
impl RequestBuilder {
    pub fn try_clone(&self) -> Option<RequestBuilder> {
        if unsafe { SCRIPT.clonable } {
            Some(RequestBuilder { range: self.range })
        } else {
            None
        }
    }
    pub fn header(mut self, name: &str, value: Formatted) -> RequestBuilder {
        if name.len() == header::RANGE.len() {
            self.range = Some(parse_range(&value));
        }
        self
    }
    pub fn send(self) -> Pending {
        Pending { range: self.range }
    }
}
pub struct Pending {
    range: Option<(u64, u64)>,
}
impl Future for Pending {
    type Output = Result<Response, Error>;
    fn poll(self: Pin<&mut Self>, _cx: &mut Context<'_>) -> Poll<Self::Output> {
        let (first, last) = match self.range { Some(r) => r, None => panic!("request without range header") };
        let k = unsafe {
            let k = SCRIPT.n_requests;
            assert!(k < MAX_REQ, "stub bound: too many requests");
            SCRIPT.log[k] = (first, last);
            SCRIPT.n_requests = k + 1;
            k
        };
        let reply = unsafe { Reply { connect_fail: SCRIPT.connect_fail[k], frags: SCRIPT.frags[k], end_with_error: SCRIPT.end_err[k] } };
        if reply.connect_fail {
            Poll::Ready(Err(Error))
        } else {
            Poll::Ready(Ok(Response { first, last, reply, frag: 0, sent: 0 }))
        }
    }
}
pub struct Response {
    first: u64,
    last: u64,
    reply: Reply,
    frag: usize,
    sent: u64,
}
impl Response {
    pub fn bytes_stream(self) -> BodyStream {
        BodyStream(self)
    }
    pub async fn bytes(self) -> Result<Bytes, Error> {
        let mut out = Vec::new();
        let mut s = BodyStream(self);
        loop {
            match s.next_frag() {
                Some(Ok(b)) => out.extend_from_slice(&b),
                Some(Err(e)) => return Err(e),
                None => return Ok(Bytes::from(out)),
            }
        }
    }
}
pub struct BodyStream(Response);
impl BodyStream {
    fn next_frag(&mut self) -> Option<Result<Bytes, Error>> {
        let r = &mut self.0;
        while r.frag < MAX_FRAG && r.reply.frags[r.frag] == 0 {
            r.frag += 1;
        }
        if r.frag >= MAX_FRAG {
            if r.reply.end_with_error {
                r.reply.end_with_error = false;
                return Some(Err(Error));
            }
            return None;
        }
        let mut n = r.reply.frags[r.frag] as u64;
        let want = r.last + 1 - r.first - r.sent;
        if n > want { n = want; }
        if n == 0 { r.frag = MAX_FRAG; return None; }
        r.frag += 1;
        let a = (r.first + r.sent) as usize;
        r.sent += n;
        assert!(a + n as usize <= DATA_LEN, "stub bound: request beyond modelled file");
        Some(Ok(Bytes::from_static(&CONTENT[a..a + n as usize])))
    }
}
impl futures_util::stream::Stream for BodyStream {
    type Item = Result<Bytes, Error>;
    fn poll_next(mut self: Pin<&mut Self>, _cx: &mut Context<'_>) -> Poll<Option<Self::Item>> {
        Poll::Ready(self.next_frag())
    }
}
