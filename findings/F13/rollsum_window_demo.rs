// C15 / F13 demonstration (bitar integration test: copy to bitar/tests/rollsum_window_demo.rs and run
//   cargo test --offline -p bitar --test rollsum_window_demo
// Panics ("attempt to multiply with overflow") before the `fix:` commit, passes after it.
use bitar::chunker::{Config, FilterBits, FilterConfig};
use futures_util::StreamExt;

#[test]
fn large_hash_window_does_not_panic() {
    let cfg = Config::RollSum(FilterConfig {
        filter_bits: FilterBits::from_bits(10),
        min_chunk_size: 0,
        max_chunk_size: 1 << 20,
        window_size: 20000, // as from `--hash-window 20000` or an archive header
    });
    let data = vec![7u8; 50_000];
    let rt = tokio::runtime::Builder::new_current_thread().build().unwrap();
    let n = rt.block_on(async {
        let mut s = cfg.new_chunker(&data[..]);
        let mut total = 0usize;
        while let Some(r) = s.next().await {
            total += r.unwrap().1.len();
        }
        total
    });
    assert_eq!(n, data.len());
}
