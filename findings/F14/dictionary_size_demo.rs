// C15 / F14 demonstration (bitar integration test: copy to bitar/tests/dictionary_size_demo.rs and run
//   cargo test --offline -p bitar --test dictionary_size_demo            (dev profile)
//   cargo test --offline -p bitar --test dictionary_size_demo --release  (release profile)
// An "archive" whose pre-header declares a dictionary size close to u64::MAX.  Before the `fix:` commit opening it
// panics -- "attempt to add with overflow" (archive.rs, `dictionary_size + 8 + 64`) in the dev profile; in the release
// profile the sum wraps to a small read that succeeds, and `&header[14..(14 + dictionary_size)]` then panics with
// "slice index starts at 14 but ends at 13" (the header checksum over the 21 wrapped-around bytes is attacker
// computable, so the checksum test does not stop it).  After the fix both profiles report InvalidArchive.
use bitar::archive_reader::IoReader;
use bitar::{Archive, ArchiveError};
use blake2::{Blake2b512, Digest};
use std::io::Cursor;

fn hostile(dictionary_size: u64) -> Vec<u8> {
    let mut a = Vec::new();
    a.extend_from_slice(b"BITA1\0");
    a.extend_from_slice(&dictionary_size.to_le_bytes());
    // what a wrapped-around reader would take for "chunk data offset" and checksum: make the checksum of the first
    // 14 + (dictionary_size wrapped) + 8 bytes valid so that only the arithmetic stands between us and the decoder
    let wrapped = (14u64.wrapping_add(dictionary_size).wrapping_add(8)) as usize; // 21 for u64::MAX
    while a.len() < wrapped && a.len() < 64 {
        a.push(0);
    }
    let mut h = Blake2b512::new();
    h.update(&a[..wrapped.min(a.len())]);
    a.extend_from_slice(&h.finalize());
    a.extend_from_slice(&[0u8; 64]);
    a
}

async fn open(bytes: Vec<u8>) -> Result<(), String> {
    match Archive::try_init(IoReader::new(Cursor::new(bytes))).await {
        Ok(_) => Ok(()),
        Err(ArchiveError::InvalidArchive(e)) => Err(format!("invalid archive: {e}")),
        Err(e) => Err(format!("{e}")),
    }
}

#[tokio::test]
async fn dictionary_size_max_is_an_error_not_a_panic() {
    let r = open(hostile(u64::MAX)).await;
    assert!(r.is_err(), "a dictionary size of u64::MAX cannot be a valid archive");
}

#[tokio::test]
async fn dictionary_size_near_max_is_an_error_not_a_panic() {
    for d in [u64::MAX - 1, u64::MAX - 7, u64::MAX - 13, u64::MAX - 21, u64::MAX - 71] {
        let r = open(hostile(d)).await;
        assert!(r.is_err());
    }
}
