// Counterexample returned by the solver for harness `c04_pinned_header_short_value` (property C04).
// Failed checks: "clone proceeds although the supplied header checksum differs from the archive's"
// Replay: bin/replay replays/C04/c04_pinned_header_short_value.rs   (appends this test to the harness module of a fresh mirror of /repo and runs
//         `cargo kani playback`; the test panics iff the violation reproduces natively)
// module: hashsum::kani_proofs::c04_pinned_header_short_value
/// Test generated for harness `hashsum::kani_proofs::c04_pinned_header_short_value` 
///
/// Check for `assertion`: ""clone proceeds although the supplied header checksum differs from the archive's""

#[test]
fn kani_concrete_playback_c04_pinned_header_short_value_449262090546069711() {
    let concrete_vals: Vec<Vec<u8>> = vec![
        // 0
        vec![0],
        // 0
        vec![0],
        // 0
        vec![0],
        // 0
        vec![0],
        // 0
        vec![0],
        // 0
        vec![0],
        // 0
        vec![0],
        // 0
        vec![0],
        // 0
        vec![0],
        // 0
        vec![0],
        // 0
        vec![0],
        // 0
        vec![0],
        // 0
        vec![0],
        // 0
        vec![0],
        // 0
        vec![0],
        // 0
        vec![0],
        // 0
        vec![0],
        // 0
        vec![0],
        // 0
        vec![0],
        // 0
        vec![0],
        // 0
        vec![0],
        // 0
        vec![0],
        // 0
        vec![0],
        // 0
        vec![0],
        // 0
        vec![0],
        // 0
        vec![0],
        // 0
        vec![0],
        // 0
        vec![0],
        // 0
        vec![0],
        // 0
        vec![0],
        // 0
        vec![0],
        // 0
        vec![0],
        // 0
        vec![0],
        // 0
        vec![0],
        // 0
        vec![0],
        // 0
        vec![0],
        // 0
        vec![0],
        // 0
        vec![0],
        // 0
        vec![0],
        // 0
        vec![0],
        // 0
        vec![0],
        // 0
        vec![0],
        // 0
        vec![0],
        // 0
        vec![0],
        // 0
        vec![0],
        // 0
        vec![0],
        // 0
        vec![0],
        // 0
        vec![0],
        // 0
        vec![0],
        // 0
        vec![0],
        // 0
        vec![0],
        // 0
        vec![0],
        // 0
        vec![0],
        // 0
        vec![0],
        // 0
        vec![0],
        // 0
        vec![0],
        // 0
        vec![0],
        // 0
        vec![0],
        // 0
        vec![0],
        // 0
        vec![0],
        // 0
        vec![0],
        // 0
        vec![0],
        // 0
        vec![0],
        // 0
        vec![0],
        // 1ul
        vec![1, 0, 0, 0, 0, 0, 0, 0],
        // 0
        vec![0],
        // 0
        vec![0],
        // 0
        vec![0],
        // 0
        vec![0],
        // 0
        vec![0],
        // 0
        vec![0],
        // 0
        vec![0],
        // 0
        vec![0],
        // 0
        vec![0],
        // 0
        vec![0],
        // 0
        vec![0],
        // 0
        vec![0],
        // 0
        vec![0],
        // 0
        vec![0],
        // 0
        vec![0],
        // 0
        vec![0],
        // 0
        vec![0],
        // 0
        vec![0],
        // 0
        vec![0],
        // 0
        vec![0],
        // 0
        vec![0],
        // 0
        vec![0],
        // 0
        vec![0],
        // 0
        vec![0],
        // 0
        vec![0],
        // 0
        vec![0],
        // 0
        vec![0],
        // 0
        vec![0],
        // 0
        vec![0],
        // 0
        vec![0],
        // 0
        vec![0],
        // 0
        vec![0],
        // 0
        vec![0],
        // 0
        vec![0],
        // 0
        vec![0],
        // 0
        vec![0],
        // 0
        vec![0],
        // 0
        vec![0],
        // 0
        vec![0],
        // 0
        vec![0],
        // 0
        vec![0],
        // 0
        vec![0],
        // 0
        vec![0],
        // 0
        vec![0],
        // 0
        vec![0],
        // 0
        vec![0],
        // 0
        vec![0],
        // 0
        vec![0],
        // 0
        vec![0],
        // 0
        vec![0],
        // 0
        vec![0],
        // 0
        vec![0],
        // 0
        vec![0],
        // 0
        vec![0],
        // 0
        vec![0],
        // 0
        vec![0],
        // 0
        vec![0],
        // 0
        vec![0],
        // 0
        vec![0],
        // 0
        vec![0],
        // 0
        vec![0],
        // 0
        vec![0],
        // 0
        vec![0],
        // 0
        vec![0],
    ];
    kani::concrete_playback_run(concrete_vals, c04_pinned_header_short_value);
}
