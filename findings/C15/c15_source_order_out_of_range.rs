// Counterexample returned by the solver for harness `c15_source_order_out_of_range` (property C15).
// Failed checks: index out of bounds: the length is less than or equal to the given index
// Replay: bin/replay replays/C15/c15_source_order_out_of_range.rs   (appends this test to the harness module of a fresh mirror of /repo and runs
//         `cargo kani playback`; the test panics iff the violation reproduces natively)
// module: archive::kani_proofs::c15_source_order_out_of_range
/// Test generated for harness `archive::kani_proofs::c15_source_order_out_of_range` 
///
/// Check for `assertion`: "index out of bounds: the length is less than or equal to the given index"

#[test]
fn kani_concrete_playback_c15_source_order_out_of_range_7485539089806137555() {
    let concrete_vals: Vec<Vec<u8>> = vec![
        // 18446744073709551615ul
        vec![255, 255, 255, 255, 255, 255, 255, 255],
        // 18446744073709551615ul
        vec![255, 255, 255, 255, 255, 255, 255, 255],
        // 18446744073709551615ul
        vec![255, 255, 255, 255, 255, 255, 255, 255],
        // 4
        vec![4],
        // 4
        vec![4],
        // 4
        vec![4],
        // 4
        vec![4],
        // 4
        vec![4],
        // 4
        vec![4],
        // 3ul
        vec![3, 0, 0, 0, 0, 0, 0, 0],
        // 35184372088833ul
        vec![1, 0, 0, 0, 0, 32, 0, 0],
    ];
    kani::concrete_playback_run(concrete_vals, c15_source_order_out_of_range);
}
