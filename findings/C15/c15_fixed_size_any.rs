// Counterexample returned by the solver for harness `c15_fixed_size_any` (property C15).
// Failed checks: "zero-length chunk: the chunk stream would never end"
// Replay: bin/replay replays/C15/c15_fixed_size_any.rs   (appends this test to the harness module of a fresh mirror of /repo and runs
//         `cargo kani playback`; the test panics iff the violation reproduces natively)
// module: chunker::fixed_size::kani_proofs::c15_fixed_size_any
/// Test generated for harness `chunker::fixed_size::kani_proofs::c15_fixed_size_any` 
///
/// Check for `assertion`: ""zero-length chunk: the chunk stream would never end""

#[test]
fn kani_concrete_playback_c15_fixed_size_any_2836713251131784427() {
    let concrete_vals: Vec<Vec<u8>> = vec![
        // 0ul
        vec![0, 0, 0, 0, 0, 0, 0, 0],
        // 255
        vec![255],
        // 255
        vec![255],
        // 255
        vec![255],
        // 255
        vec![255],
        // 255
        vec![255],
        // 0ul
        vec![0, 0, 0, 0, 0, 0, 0, 0],
    ];
    kani::concrete_playback_run(concrete_vals, c15_fixed_size_any);
}
