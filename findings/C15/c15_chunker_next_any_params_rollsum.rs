// Counterexample returned by the solver for harness `c15_chunker_next_any_params_rollsum` (property C15).
// Failed checks: This is a placeholder message; Kani doesn't support message formatted at runtime; "zero-length chunk: the chunk stream would never end"; attempt to subtract with overflow; attempt to subtract with overflow; attempt to shift right with overflow
// Replay: bin/replay replays/C15/c15_chunker_next_any_params_rollsum.rs   (appends this test to the harness module of a fresh mirror of /repo and runs
//         `cargo kani playback`; the test panics iff the violation reproduces natively)
// module: chunker::rolling_hash::kani_proofs::c15_chunker_next_any_params_rollsum
/// Test generated for harness `chunker::rolling_hash::kani_proofs::c15_chunker_next_any_params_rollsum` 
///
/// Check for `assertion`: "attempt to subtract with overflow"

#[test]
fn kani_concrete_playback_c15_chunker_next_any_params_rollsum_5437290591814993207() {
    let concrete_vals: Vec<Vec<u8>> = vec![
        // 4294967295
        vec![255, 255, 255, 255],
        // 7ul
        vec![7, 0, 0, 0, 0, 0, 0, 0],
        // 7ul
        vec![7, 0, 0, 0, 0, 0, 0, 0],
        // 1ul
        vec![1, 0, 0, 0, 0, 0, 0, 0],
        // 255
        vec![255],
        // 255
        vec![255],
        // 255
        vec![255],
        // 255
        vec![255],
        // 255
        vec![255],
        // 255
        vec![255],
        // 0ul
        vec![0, 0, 0, 0, 0, 0, 0, 0],
    ];
    kani::concrete_playback_run(concrete_vals, c15_chunker_next_any_params_rollsum);
}
