// Counterexample returned by the solver for harness `c08_io_zero_size_range` (property C15).
// Failed checks: "a zero-length range yields the previous chunk's bytes"
// Replay: bin/replay replays/C15/c08_io_zero_size_range.rs   (appends this test to the harness module of a fresh mirror of /repo and runs
//         `cargo kani playback`; the test panics iff the violation reproduces natively)
// module: archive_reader::io_reader::kani_proofs::c08_io_zero_size_range
/// Test generated for harness `archive_reader::io_reader::kani_proofs::c08_io_zero_size_range` 
///
/// Check for `assertion`: ""a zero-length range yields the previous chunk's bytes""

#[test]
fn kani_concrete_playback_c08_io_zero_size_range_3506388246596366492() {
    let concrete_vals: Vec<Vec<u8>> = vec![
        // 1ul
        vec![1, 0, 0, 0, 0, 0, 0, 0],
        // 255
        vec![255],
    ];
    kani::concrete_playback_run(concrete_vals, c08_io_zero_size_range);
}
