// Counterexample returned by the solver for harness `c15_server_sends_too_much` (property C15).
// Failed checks: attempt to subtract with overflow
// Replay: bin/replay replays/C15/c15_server_sends_too_much.rs   (appends this test to the harness module of a fresh mirror of /repo and runs
//         `cargo kani playback`; the test panics iff the violation reproduces natively)
// module: archive_reader::http_range_request::kani_proofs::c15_server_sends_too_much
/// Test generated for harness `archive_reader::http_range_request::kani_proofs::c15_server_sends_too_much` 
///
/// Check for `assertion`: "attempt to subtract with overflow"

#[test]
fn kani_concrete_playback_c15_server_sends_too_much_17835985675912804550() {
    let concrete_vals: Vec<Vec<u8>> = vec![
        // 7ul
        vec![7, 0, 0, 0, 0, 0, 0, 0],
        // 4ul
        vec![4, 0, 0, 0, 0, 0, 0, 0],
        // 2ul
        vec![2, 0, 0, 0, 0, 0, 0, 0],
        // 1
        vec![1, 0, 0, 0],
        // 4
        vec![4],
        // 0
        vec![0],
        // 255
        vec![255],
        // 1
        vec![1],
        // 1
        vec![1],
        // 1
        vec![1],
        // 6
        vec![6],
        // 6
        vec![6],
        // 6
        vec![6],
    ];
    kani::concrete_playback_run(concrete_vals, c15_server_sends_too_much);
}
