// Counterexample returned by the solver for harness `c15_chunker_new_any_params` (property C15).
// Failed checks: attempt to subtract with overflow; attempt to shift right with overflow
// Replay: bin/replay replays/C15/c15_chunker_new_any_params.rs   (appends this test to the harness module of a fresh mirror of /repo and runs
//         `cargo kani playback`; the test panics iff the violation reproduces natively)
// module: chunker::rolling_hash::kani_proofs::c15_chunker_new_any_params
/// Test generated for harness `chunker::rolling_hash::kani_proofs::c15_chunker_new_any_params` 
///
/// Check for `assertion`: "attempt to subtract with overflow"

#[test]
fn kani_concrete_playback_c15_chunker_new_any_params_17728772401872423112() {
    let concrete_vals: Vec<Vec<u8>> = vec![
        // 4294967295
        vec![255, 255, 255, 255],
        // 4294967295ul
        vec![255, 255, 255, 255, 0, 0, 0, 0],
        // 4294967295ul
        vec![255, 255, 255, 255, 0, 0, 0, 0],
        // 4294967295ul
        vec![255, 255, 255, 255, 0, 0, 0, 0],
    ];
    kani::concrete_playback_run(concrete_vals, c15_chunker_new_any_params);
}
