// C10 / F5 demonstration (bitar integration test: copy to bitar/tests/f5_demo.rs and run
//   cargo test --offline -p bitar --test f5_demo
// Fails on a073cad (before the `fix:` commit), passes after it.
//
// Streams A = P1 + S and B = S share the data S.  Both place a chunk boundary at position 7 of S (more than one
// 4-byte window into S), yet the later chunks differ: B cuts after every byte of the zero run.  Cause:
// BuzHash::init() did not update last_input/repeated_input, so right after priming the run-length shortcut in
// input() believed one 0x00 had already been pushed and stopped pushing zeros one byte early; the stale priming
// byte stayed in the window for the rest of the zero run.
use bitar::chunker::{Config, FilterBits, FilterConfig};
use futures_util::StreamExt;

fn chunk_ends(cfg: &Config, data: &[u8]) -> Vec<u64> {
    let rt = tokio::runtime::Builder::new_current_thread().build().unwrap();
    rt.block_on(async {
        let mut s = cfg.new_chunker(data);
        let mut ends = vec![];
        while let Some(r) = s.next().await {
            let (off, c) = r.unwrap();
            ends.push(off + c.len() as u64);
        }
        ends
    })
}

#[test]
fn later_chunks_identical_after_common_boundary() {
    let w = 4usize;
    let cfg = Config::BuzHash(FilterConfig {
        filter_bits: FilterBits::from_bits(2),
        min_chunk_size: 1,
        max_chunk_size: 64,
        window_size: w,
    });
    let p1 = [9u8, 8, 7, 6, 5, 4, 3, 2];
    let mut s = vec![1u8, 1, 77, 3];
    s.extend_from_slice(&[0u8; 16]);
    s.extend_from_slice(&[11, 22, 33, 44, 55, 66, 77, 88, 99, 111, 122, 133]);
    let mut a = p1.to_vec();
    a.extend_from_slice(&s);
    let ea: Vec<u64> = chunk_ends(&cfg, &a)
        .into_iter()
        .filter(|&e| e >= p1.len() as u64)
        .map(|e| e - p1.len() as u64)
        .collect();
    let eb = chunk_ends(&cfg, &s);
    let common = 7u64; // >= w
    assert!(ea.contains(&common) && eb.contains(&common), "both streams cut at S[7]");
    let la: Vec<u64> = ea.iter().copied().filter(|&x| x > common).collect();
    let lb: Vec<u64> = eb.iter().copied().filter(|&x| x > common).collect();
    assert_eq!(la, lb, "chunk ends after the common boundary differ");
}
