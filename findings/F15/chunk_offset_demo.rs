// C15 / F15 demonstration (bitar integration test: copy to bitar/tests/chunk_offset_demo.rs and run
//   cargo test --offline -p bitar --test chunk_offset_demo
// A header with a VALID checksum whose chunk data offset plus a descriptor's relative offset (or plus its stored
// size) exceeds u64::MAX.  Before the `fix:` commit opening it panics with "attempt to add with overflow" in the
// profile the test suite runs in (archive.rs, `chunk_data_offset + dict.archive_offset`; the end-of-chunk additions in
// the HTTP reader overflow the same way later on); in the release profile the sums wrap.  After the fix the archive
// is reported as invalid.
use bitar::archive_reader::IoReader;
use bitar::chunk_dictionary::{
    chunk_compression::CompressionType, chunker_parameters::ChunkingAlgorithm, ChunkCompression, ChunkDescriptor,
    ChunkDictionary, ChunkerParameters,
};
use bitar::Archive;
use std::io::Cursor;

fn archive(chunk_data_offset: u64, archive_offset: u64, archive_size: u32) -> Vec<u8> {
    let dict = ChunkDictionary {
        application_version: "demo".to_string(),
        source_checksum: vec![0; 64],
        source_total_size: 4,
        chunker_params: Some(ChunkerParameters {
            chunk_filter_bits: 0,
            min_chunk_size: 0,
            max_chunk_size: 4,
            rolling_hash_window_size: 0,
            chunk_hash_length: 64,
            chunking_algorithm: ChunkingAlgorithm::FixedSize as i32,
        }),
        chunk_compression: Some(ChunkCompression { compression: CompressionType::None as i32, compression_level: 0 }),
        rebuild_order: vec![0],
        chunk_descriptors: vec![ChunkDescriptor { checksum: vec![1; 64], archive_size, archive_offset, source_size: 4 }],
        metadata: Default::default(),
    };
    bitar::header::build(&dict, Some(chunk_data_offset)).unwrap()
}

async fn open(bytes: Vec<u8>) -> bool {
    match Archive::try_init(IoReader::new(Cursor::new(bytes))).await {
        Ok(archive) => {
            // bita's own accessor for the end of a stored chunk (before the fix: "attempt to add with overflow"
            // for an accepted archive whose chunk ends beyond u64::MAX; the HTTP reader's `offset + size - 1`
            // overflows the same way)
            for cd in archive.chunk_descriptors() {
                let _ = cd.archive_end_offset();
            }
            true
        }
        Err(_) => false,
    }
}

#[tokio::test]
async fn offset_sum_beyond_u64_is_an_error_not_a_panic() {
    assert!(!open(archive(u64::MAX, 1, 4)).await);
    assert!(!open(archive(1 << 63, 1 << 63, 4)).await);
}

#[tokio::test]
async fn chunk_end_beyond_u64_is_an_error_not_a_panic() {
    assert!(!open(archive(u64::MAX - 2, 1, 4)).await);
}

#[tokio::test]
async fn control_large_but_valid_offsets_open() {
    assert!(open(archive(u64::MAX - 10, 1, 4)).await);
}
