#!/bin/bash
# C15 (and the empty-source case of C01) / F16 demonstration, against the real CLI:
#   cd /repo && cargo build --offline && /verif/findings/F16/empty_source_info_demo.sh /repo/target/debug/bita
# Before the `fix:` commit both commands panic ("attempt to divide by zero", src/info_cmd.rs, in every build profile)
# with exit status 101 -- `bita compress` after it has written the archive; after the fix both exit 0 and report an
# average chunk size of 0 bytes.
bita=${1:-/repo/target/debug/bita}
d=$(mktemp -d)
: > $d/empty.bin
$bita compress -i $d/empty.bin $d/empty.cba > $d/compress.log 2>&1; rc1=$?
$bita info $d/empty.cba > $d/info.log 2>&1; rc2=$?
grep -h "panicked\|divide by zero\|Average chunk size" $d/compress.log $d/info.log
echo "compress exit status: $rc1   info exit status: $rc2"
rm -rf $d
[ $rc1 -eq 0 ] && [ $rc2 -eq 0 ]
